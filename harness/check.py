"""bin/check: decides one property with (1) exhaustive TLC on spec/Ciw.tla, (2) validation of
traces recorded from the real engine against the specification and the property formulas
(code -> spec), (3) replay of TLC-generated behaviours into the real engine (spec -> code).

Exit 0: held on everything explored (KNOWN-FINDING / DRIFT lines possible);
exit 1: VIOLATION property=<id> replay=<path>; exit 2: machinery error."""
import argparse
import copy
import json
import multiprocessing as mp
import os
import random
import shutil
import sys
import time
import traceback
from concurrent.futures import ThreadPoolExecutor

VERIF = os.path.dirname(os.path.dirname(os.path.abspath(__file__)))
REPO = os.environ.get("CIWVERIF_REPO", "/repo")

# property -> configuration
PROPS = {
    "C01": dict(fam=["core1", "tandem", "prio", "cls", "renege", "route", "preempt", "sched", "schedpre", "slot", "ccw"],
                mc=["core1", "tandem", "tri", "cls", "renege", "schedpre", "slot", "ccw", "jockey", "infblock", "renegesched"], inv=["Inv_C01"], step=["Step_C01"]),
    "C02": dict(fam=["core1", "tandem", "prio", "renege", "cls", "schedblock", "slotren", "preblock", "jockey", "ppren"],
                mc=["core1", "tandem", "renege", "prio", "renegesched", "slotpre", "infblock", "slotren"], inv=[], step=["Step_C02"]),
    "C03": dict(fam=["tandem", "route", "cls", "renege", "prio", "schedblock", "infblock", "preblock", "jockey"],
                mc=["tandem", "tri", "route", "cls", "jockey", "infblock", "overblock"], inv=["Inv_C03"], step=["Step_C03"]),
    "C06": dict(fam=["core1", "tandem", "renege"], mc=["core1", "tandem", "jockey"], inv=["Inv_C06"], step=["Step_C06"]),
    "C07": dict(fam=["tandem", "cls", "route", "preblock", "infblock", "overblock", "ppblock", "slotblock"], mc=["tandem", "tri", "cls", "infblock", "overblock", "slotblock", "ppblock"], inv=["Inv_C07"], step=["Step_C07"]),
    "C10": dict(fam=["core1", "tandem", "prio", "renege", "fault", "jockey"], mc=["core1", "tandem", "prio", "jockey", "slotpre"],
                inv=["Inv_C10"], step=["Step_C10"]),
    "C04": dict(fam=["tandem", "prio", "preempt", "sched", "schedpre", "core1", "schedblock", "preblock", "ppzero"],
                mc=["tandem", "preempt", "sched", "schedpre", "ppsched", "jsqsched", "overblock"], inv=["Inv_C04"], step=["Step_C04"]),
    "C12": dict(fam=["sched", "schedpre", "slot", "slotpre", "slotren", "preblock", "ppsched", "ppzero", "slotblock", "sharedrota"], mc=["sched", "schedpre", "slot", "ppsched", "slotpre", "renegesched", "slotblock", "slotren"], inv=["Inv_C12"], step=["Step_C12"]),
    "C05": dict(fam=["core1", "tandem", "prio", "preempt", "renege", "cls", "sched", "schedpre", "ccw"],
                mc=["core1", "tandem", "prio", "preempt", "renege", "sched", "schedpre", "ppsched", "renegesched"], inv=["Inv_C05"], step=["Step_C05"]),
    "C08": dict(fam=["prio", "preempt", "cls", "renege", "ccw", "sched", "slot"], mc=["prio", "preempt", "cls", "ccw", "slot", "ppsched", "slotpre"], inv=[], step=["Step_C08"]),
    "C09": dict(fam=["route", "cls", "jsqsched", "tandem", "prio", "fpbjsq"], mc=["route", "cls", "tandem", "jsqsched", "jockey"], inv=["Inv_C09"], step=["Step_C09"]),
    "C11": dict(fam=["preempt", "ppccw"], mc=["preempt", "ppccw"], inv=["Inv_C11"], step=["Step_C11"]),
    "C13": dict(fam=["renege", "core1", "jockey", "slotren", "renegesched", "ccwren", "ppren"], mc=["renege", "jockey", "renegesched", "slotren"], inv=["Inv_C13"], step=["Step_C13"]),
    "C16": dict(fam=["pause"], mc=["pause"], inv=["Inv_C04", "Inv_C01"], step=["Step_C16"]),
    "C17": dict(fam=["trk", "trkccw", "trkreroute", "trkclsren", "trkblock3"], mc=["trk", "dead"], inv=["Inv_C17"], step=["Step_C17"]),
    "C18": dict(fam=["dead", "dead3", "exdead"], mc=["dead"], inv=["Inv_C18"], step=["Step_C18"]),
    "C19": dict(fam=["ps", "psfifo", "psprio"], mc=["ps", "psprio"], inv=["Inv_C19"], step=["Step_C19"]),
    "C20": dict(fam=["exact", "eps", "exactT", "exmix"], mc=["exact"], inv=[], step=["Step_C20"]),
    "C14": dict(fam=["stopcount", "ppblock", "slotpreblock", "exactT", "exdead", "pbar", "exmix", "mix2", "core1", "tandem", "prio", "cls", "renege", "route", "preempt"],
                mc=["core1", "stopcount", "renegesched", "jsqsched", "ppblock"], inv=[], step=["Step_C14"]),
}

ALLFAM = ["mix", "mix2", "mix2", "ppccw", "eps", "exactT", "fpbjsq", "exdead", "pbar", "exmix", "psprio", "trkreroute", "ccwren", "trkclsren", "trkblock3", "sharedrota", "slotren", "preblock", "overblock", "trkccw", "ppblock", "ppzero", "slotblock", "slotpreblock", "pause", "date0", "jsqsched", "dead3", "jockey", "slotpre", "renegesched", "schedblock", "infblock", "ppsched", "ps", "core1", "tandem", "prio", "preempt", "cls", "clsren", "renege", "route", "sched", "schedpre", "schedblock",
          "slot", "ccw", "trk", "reroute", "stopcount"]

# vacuity gates (DESIGN section 5): witness tags that the validated traces of a check must contain at least once,
# otherwise the property's antecedents were never exercised and the check exits 2 instead of "passing"
GATES = {
    "C01": ["release", "block", "unblock", "reject", "renege", "preempt", "ccw", "batch>1"],
    "C02": ["same-instant", "rec:service", "rec:interrupted service", "rec:renege", "rec:rejection", "zero-service"],
    "C03": ["route-internal", "unblock", "rec:interrupted service", "rec:renege"],
    "C04": ["attach", "detach", "block", "kill", "preempt"],
    "C05": ["choose-among-many", "shift", "preempt", "unblock"],
    "C06": ["reject", "batch>1", "block"],
    "C07": ["block", "unblock", "cascade", "tie-ind"],
    "C08": ["choose-multi-prio", "choose-among-many", "preempt", "ccw"],
    "C09": ["route-internal", "class-changed", "routefn"],
    "C10": ["ia", "batch>1", "svc", "restart-after-preemption"],
    "C11": ["preempt", "restart-after-preemption"],
    "C12": ["shift", "kill", "interrupt", "slot"],
    "C13": ["pat", "renege", "bu", "baulk"],
    "C14": ["ev:arrival", "ev:end_service", "ev:shift_change", "ev:renege", "ev:class_change", "ev:slotted_service"],
    "C16": ["pause"],
    "C17": ["block", "unblock", "class-changed", "ccw", "renege"],
    "C18": ["ddl", "block"],
    "C19": ["ev:end_service", "same-instant"],
    "C20": ["svc", "rec:service"],
}

TIERS = {
    "quick": dict(traces=960, max_events=60, mc_timeout=240, batch=10),
    "thorough": dict(traces=2000, max_events=120, mc_timeout=420, batch=40),
}


def log(*a):
    print(*a, flush=True)


# ---------------------------------------------------------------- trace generation (worker processes)

def _worker_init(repo):
    sys.path.insert(0, repo)
    os.environ["PYTHONHASHSEED"] = "0"


def gen_one(job):
    """runs one random scenario of a family on the real engine; returns (job, trace | error)"""
    fam, seed, max_events, adversarial = job
    from harness.families import FAMILIES
    from harness.run import Run
    from harness.rec import Unrepresentable
    import ciw
    if not os.path.abspath(ciw.__file__).startswith(os.path.abspath(REPO)):
        return job, None, "machinery: ciw imported from %s, not %s" % (ciw.__file__, REPO)
    rng = random.Random("%s/%d" % (fam, seed))
    sc = FAMILIES[fam](rng)
    try:
        script = sc.pop("script", None)
        r = Run(copy.deepcopy(sc), seed=seed, adversarial=adversarial, max_events=max_events, tid=seed,
                script=copy.deepcopy(script))
        if script is not None:
            sc["script"] = script
        t = r.execute()
        t["family"] = fam
        t["seed"] = seed
        t["scenario"] = sc
        return job, t, None
    except Unrepresentable as e:
        return job, {"scenario": sc, "family": fam, "seed": seed}, "unrepresentable: %s" % e
    except Exception:
        return job, None, "machinery: " + traceback.format_exc()


def replay_one(job):
    """spec -> code: replays one TLC-generated behaviour into the real engine"""
    fam, tid, sc, beh = job
    from harness import replay
    from harness.rec import Unrepresentable
    import ciw
    if not os.path.abspath(ciw.__file__).startswith(os.path.abspath(REPO)):
        return job, None, "machinery: ciw imported from %s, not %s" % (ciw.__file__, REPO)
    try:
        t, div = replay.replay(copy.deepcopy(sc), beh, tid=tid)
        t["family"] = "replay:" + fam
        t["seed"] = tid
        t["scenario"] = sc
        t["divergence"] = div
        return job, t, None
    except Unrepresentable as e:
        return job, None, "unrepresentable: %s" % e
    except Exception:
        return job, None, "machinery: " + traceback.format_exc()


def run_pool(fn, jobs, procs=16):
    ctx = mp.get_context("spawn")
    os.environ["PYTHONPATH"] = REPO + os.pathsep + VERIF
    with ctx.Pool(procs, initializer=_worker_init, initargs=(REPO,)) as pool:
        return pool.map(fn, jobs, chunksize=4)


def generate_traces(jobs, procs=16):
    ctx = mp.get_context("spawn")
    os.environ["PYTHONPATH"] = REPO + os.pathsep + VERIF
    with ctx.Pool(procs, initializer=_worker_init, initargs=(REPO,)) as pool:
        return pool.map(gen_one, jobs, chunksize=4)


# ---------------------------------------------------------------- judging

def load_known():
    p = os.path.join(VERIF, "known_findings.json")
    if not os.path.exists(p):
        return []
    return json.load(open(p))


def explaining(open_f, v, clause, idx):
    """open findings that explain `clause` failing at event `idx` of the trace with verdict v.
    R4: the specification reproduces the documented deviations of the code (the unchanged tree is drift-free also in
    tainted traces), so a finding only explains failures of a trace that *conformed* up to there: once the engine has
    left the specification (a DRIFT the finding does not itself declare) at or before the failing event, the failure
    is a different one and is reported."""
    taint = {x[0]: x[1] for x in v.get("taint", [])}
    out = []
    for f in open_f:
        if f["id"] not in taint or taint[f["id"]] > idx:
            continue
        if not any(clause.startswith(pat) for pat in f.get("explains", [])):
            continue
        ok = f.get("drift_ok", [])
        bad = [d for d in v.get("drift", [])
               if d[0] <= idx and not any((d[1] + ":" + ",".join(sorted(d[2]))).startswith(pat) for pat in ok)]
        if bad:
            continue
        out.append(f)
    return out


def judge(prop, verdicts, traces, known):
    """splits failures of `prop` into violations and known findings"""
    viol, kf = [], []
    open_f = [f for f in known if f["status"] == "open" and prop in f["property"]]
    for v, t in zip(verdicts, traces):
        for clause, idx in v["fails"]:
            if not clause.startswith(prop + "."):
                continue
            expl = explaining(open_f, v, clause, idx)
            if expl:
                kf.append((expl[0], clause, idx, t))
            else:
                viol.append((clause, idx, t, v))
        if t["outcome"] in ("crash", "livelock") and prop == "C14" and not t["cfg"].get("fault"):
            cr = t["crash"]
            expl = explaining(open_f, v, "C14.no-crash", len(t["events"]) + 1)
            if expl:
                kf.append((expl[0], "C14.no-crash", len(t["events"]), t))
            else:
                viol.append(("C14.no-crash:%s:%s" % (cr["type"], cr["where"]), len(t["events"]), t, v))
    return viol, kf


def write_replay(prop, n, clause, idx, t, v):
    d = os.path.join(VERIF, "replays" if not os.environ.get("CIWVERIF_NOEVIDENCE") else ".work/selftest_replays")
    os.makedirs(d, exist_ok=True)
    path = os.path.join(d, "%s_%d.json" % (prop, n))
    ev = t["events"]
    lo = max(0, idx - 2)
    doc = {"property": prop, "clause": clause, "event_index": idx, "family": t.get("family"),
           "seed": t.get("seed"), "scenario": t.get("scenario"), "outcome": t["outcome"], "crash": t["crash"],
           "verdict": v,
           "events_around": [{"index": j + 1, "ev": ev[j]["ev"], "steps": ev[j]["steps"], "recs": ev[j]["recs"],
                              "state": {k: ev[j][k] for k in ("now", "created", "nexit", "nodes", "cu", "exit")}}
                             for j in range(lo, min(len(ev), idx))]}
    json.dump(doc, open(path, "w"), indent=1)
    return path


# ---------------------------------------------------------------- main check

def run_check(prop, tier, seed):
    from harness import tlc
    from harness.families import mc_instances
    t0 = time.time()
    P = PROPS[prop]
    T = TIERS[tier]
    work = os.path.join(VERIF, ".work", "%s_%s_%d" % (prop, tier, os.getpid()))
    shutil.rmtree(work, ignore_errors=True)
    os.makedirs(work)
    known = load_known()
    ev = {"property_id": prop, "tier": tier, "seed": seed, "level": "model_checking"}
    cov = {"states": 0, "transitions": 0, "traces_validated_against_impl": 0, "samples": [], "mc_instances": [],
           "exhaustive": True}
    machinery = []
    # ---- 1. exhaustive TLC on the specification
    # (CIWVERIF_SKIP_MC=1, used only by tools/eval_seeds.sh: a change to the library cannot alter the outcome of
    #  model checking the specification, so the seed evaluation skips this phase)
    for fam in ([] if os.environ.get("CIWVERIF_SKIP_MC") else P["mc"]):
        # thorough tier: the enlarged instance (one more customer, longer horizon) for the property's first three
        # families, the quick-size instance for the others (an enlarged instance that hits the time limit is reported
        # as not exhaustive, never as a failure)
        mtier = tier if (tier != "thorough" or P["mc"].index(fam) < 3) else "quick"
        todo = [(mtier, x) for x in mc_instances(fam, mtier)]
        k = -1
        while todo:
            itier, (scs, maxc) = todo.pop(0)
            k += 1
            cfgs = [tlc.cfg_of(copy.deepcopy(s)) for s in scs]
            r = tlc.run_mc(os.path.join(work, "mc_%s_%d" % (fam, k)), cfgs, ["NoCrash"] + P["inv"], P["step"],
                           max_created=maxc, timeout=T["mc_timeout"])
            if r["status"] == "timeout" and itier == "thorough":
                # the enlarged instance did not finish in time: the quick-size instance keeps the exhaustive part
                todo = [("quick", x) for x in mc_instances(fam, "quick")] + todo
            inst = {"family": fam, "configs": len(cfgs), "max_created": maxc, "status": r["status"],
                    "distinct_states": r["distinct"], "transitions": r["states"], "wall_s": round(r["wall"], 1),
                    "invariants": P["inv"], "action_properties": P["step"]}
            cov["mc_instances"].append(inst)
            cov["states"] += r["distinct"]
            cov["transitions"] += r["states"]
            log("MC %s/%s: %s, %d distinct states, %d transitions, %.1fs" %
                (prop, fam, r["status"], r["distinct"], r["states"], r["wall"]))
            if r["status"] == "timeout":
                cov["exhaustive"] = False
            elif r["status"] != "ok":
                machinery.append("TLC on the ideal specification (%s): %s %s\n%s" %
                                 (fam, r["status"], r["violated"], r["out"][-3000:]))
    if machinery:
        for m in machinery:
            log("MACHINERY-ERROR", m)
        return 2
    # ---- 1b. spec -> code: behaviours of the specification (TLC -simulate) replayed into the real engine
    from harness.scenario import normalise
    rjobs = []
    nb_beh = 0
    for fam in P["mc"]:
        for k, (scs, maxc) in enumerate(mc_instances(fam, tier)):
            if any(s.get("stop", "time") != "time" for s in scs):
                continue
            scs2 = [dict(copy.deepcopy(s), T=10 ** 5) for s in scs]
            cfgs = [tlc.cfg_of(copy.deepcopy(s)) for s in scs2]
            r = tlc.run_mc(os.path.join(work, "sim_%s_%d" % (fam, k)), cfgs, [], [], max_created=100, timeout=120,
                           simulate=(30 if tier == "quick" else 100), depth=14, seed=seed, export=True, workers=4)
            behs = tlc.parse_behaviours(r["out"])
            for b in behs[:(40 if tier == "quick" else 120)]:
                nb_beh += 1
                rjobs.append((fam, 900000 + nb_beh, normalise(copy.deepcopy(scs2[b[0]["idx"] - 1])), b))
    rres = run_pool(replay_one, rjobs) if rjobs else []
    replayed, divergent = [], []
    for job, t, err in rres:
        if err is not None:
            if err.startswith("machinery"):
                log("MACHINERY-ERROR", err)
                return 2
            continue
        replayed.append(t)
        if t["divergence"]:
            divergent.append(t)
    cov["spec_behaviours_replayed"] = len(replayed)
    cov["replay_divergences"] = len(divergent)
    for t in divergent[:3]:
        log("REPLAY-DIVERGENCE family=%s %s" % (t["family"], json.dumps(t["divergence"])[:300]))
    log("replayed %d TLC behaviours into the engine (%d divergent) in %.1fs" % (len(replayed), len(divergent), time.time() - t0))
    # ---- 2. code -> spec: traces of the real engine
    fams = P["fam"]
    others = [f for f in ALLFAM if f not in fams] or fams
    n = T["traces"]
    jobs = []
    for j in range(n):
        # half of the budget on the property's home families, half on every other family (R3: the monitors
        # themselves guard on the property's domain, so out-of-domain scenarios are simply not judged)
        fam = fams[(j // 2) % len(fams)] if j % 2 == 0 else others[(j // 2) % len(others)]
        jobs.append((fam, seed * 100000 + j, T["max_events"], 0.1 if j % 5 == 0 else 0.0))
    res = generate_traces(jobs)
    traces, skipped = [], []
    unrep = []
    for job, t, err in res:
        if err is not None:
            if err.startswith("machinery"):
                log("MACHINERY-ERROR", err)
                return 2
            skipped.append(err)
            if t is not None and t["scenario"].get("exact"):
                unrep.append((t, err))
        else:
            traces.append(t)
    traces = replayed + traces
    log("generated %d traces (%d skipped) in %.1fs" % (len(traces), len(skipped), time.time() - t0))
    nb = 16
    batches = [traces[i::nb] for i in range(nb)]
    batches = [b for b in batches if b]

    def val(arg):
        i, b = arg
        slim = [{k: t[k] for k in ("tid", "cfg", "init", "events", "final", "outcome", "crash", "scale")} for t in b]
        return tlc.run_trace_validation(os.path.join(work, "tv%d" % i), slim, name="b%d" % i)
    verdicts_all = []
    with ThreadPoolExecutor(nb) as ex:
        outs = list(ex.map(val, enumerate(batches)))
    tv_states = 0
    pairs = []
    for b, (vs, st, wall) in zip(batches, outs):
        tv_states += st
        for t, v in zip(b, vs):
            pairs.append((t, v))
    traces = [p[0] for p in pairs]
    verdicts = [p[1] for p in pairs]
    cov["traces_validated_against_impl"] = len(traces)
    cov["trace_events_validated"] = sum(len(t["events"]) for t in traces)
    unjudged = [(t, v) for t, v in pairs if v.get("unjudged")]
    cov["unjudged_traces"] = len(unjudged)
    for t, v in unjudged[:3]:
        log("UNJUDGED family=%s seed=%s: TLC could not evaluate the specification on this trace: %s" %
            (t["family"], t["seed"], json.dumps(v["drift"])[:400]))
    drift = [(t, v) for t, v in pairs if v["drift"]]
    wit = {}
    for v in verdicts:
        for w in v["wits"]:
            wit[w] = wit.get(w, 0) + 1
    cov["witnesses"] = wit
    missing = [w for w in GATES.get(prop, []) if wit.get(w, 0) == 0]
    cov["vacuity_gate"] = {"required": GATES.get(prop, []), "missing": missing}
    cov["drift_traces"] = len(drift)
    for t, v in drift[:5]:
        log("DRIFT family=%s seed=%s %s" % (t["family"], t["seed"], json.dumps(v["drift"])[:300]))
    viol, kf = judge(prop, verdicts, traces, known)
    if prop == "C20":
        # an exact-mode run whose dates are not multiples of 10^-digits cannot even be written in ticks:
        # the dates are not exact decimal sums.  Known (F10) when a Schedule is involved, a violation otherwise.
        f10 = [f for f in known if f["id"] == "F10" and f["status"] == "open"]
        for t, err in unrep:
            sched = any(nd.get("kind") in ("sched", "slot") for nd in t["scenario"]["nodes"])
            if sched and f10:
                kf.append((f10[0], "C20.dates-are-exact-decimal-sums(unrepresentable)", 0,
                           {"family": t["family"], "seed": t["seed"]}))
            else:
                viol.append(("C20.dates-are-exact-decimal-sums(unrepresentable:%s)" % err[:80], 0,
                             {"family": t["family"], "seed": t["seed"], "scenario": t["scenario"], "events": [],
                              "outcome": "unrepresentable", "crash": {"type": "", "where": "", "msg": err}}, {}))
    # ---- evidence
    distinct = set()
    for t, v in pairs:
        distinct.add((t["family"], tuple(sorted(w for w in v["wits"] if not w.startswith("ev:")))))
    cov["evaluations"] = len(traces) + len(cov["mc_instances"])
    cov["distinct_nontrivial"] = len(distinct)
    cov["rule"] = ("a validated trace counts as distinct by (family, set of witnessed micro-step kinds / "
                   "tie, cascade, unblock, zero-service, same-instant tags); non-trivial = at least one event")
    for t, v in pairs[:2]:
        cov["samples"].append({"family": t["family"], "seed": t["seed"], "scenario": t["scenario"],
                               "events": [e["ev"] for e in t["events"][:12]], "verdict": v})
    cov["skipped"] = len(skipped)
    cov["known_findings_seen"] = sorted(set(f["id"] for f, _, _, _ in kf))
    ev["coverage"] = cov
    ev["assumptions"] = ["the recording wrappers only delegate and record",
                         "TLC 1.8 evaluates the TLA+ formulas correctly",
                         "scripted integer-valued distributions stand for arbitrary non-negative samples"]
    ev["violations"] = len(viol)
    ev["wall_s"] = round(time.time() - t0, 1)
    if not os.environ.get("CIWVERIF_NOEVIDENCE"):   # self-tests against scratch copies do not touch evidence/
        os.makedirs(os.path.join(VERIF, "evidence"), exist_ok=True)
        json.dump(ev, open(os.path.join(VERIF, "evidence", prop + ".json"), "w"), indent=1)
    seen_kf = set()
    for f, clause, idx, t in kf:
        if f["id"] in seen_kf:
            continue
        seen_kf.add(f["id"])
        log("KNOWN-FINDING: property=%s %s %s (e.g. clause %s, family %s seed %s)" %
            (prop, f["id"], f["what"], clause, t["family"], t["seed"]))
    rc = 0
    if missing and not viol:
        log("MACHINERY-ERROR vacuity gate: no validated trace witnessed %s" % missing)
        rc = 2
    if unjudged and not viol:
        # nothing else was found and some traces could not be judged at all: the machinery is not total here
        log("MACHINERY-ERROR %d traces could not be judged (see UNJUDGED lines)" % len(unjudged))
        rc = 2
    seen = set()
    for k, (clause, idx, t, v) in enumerate(viol):
        if clause in seen and k > 20:
            continue
        seen.add(clause)
        path = write_replay(prop, k, clause, idx, t, v)
        log("VIOLATION property=%s replay=%s clause=%s event=%d family=%s seed=%s" %
            (prop, path, clause, idx, t["family"], t["seed"]))
        rc = 1
        if k >= 10:
            break
    shutil.rmtree(work, ignore_errors=True)
    log("%s %s: %d traces, %d events, %d spec states, wall %.0fs -> %s" %
        (prop, tier, len(traces), cov["trace_events_validated"], cov["states"], time.time() - t0,
         "VIOLATION" if rc else "held"))
    return rc


PAIR_TIERS = {"quick": 96, "thorough": 1500}
HIST_TIERS = {"quick": 48, "thorough": 600}


def _pair_init(repo):
    sys.path.insert(0, repo)


def run_pair_check(prop, tier, seed):
    """C15 / C16: pairs of executions of the real engine judged by spec/CiwPair.tla"""
    from harness import tlc, pairs
    t0 = time.time()
    n = PAIR_TIERS[tier]
    work = os.path.join(VERIF, ".work", "%s_%s_%d" % (prop, tier, os.getpid()))
    shutil.rmtree(work, ignore_errors=True)
    os.makedirs(work)
    known = load_known()
    os.environ["PYTHONPATH"] = REPO + os.pathsep + VERIF
    os.environ["CIWVERIF_REPO"] = REPO
    ctx = mp.get_context("spawn")
    if prop == "C16":
        jobs = [(j, seed * 100000 + j) for j in range(n)]
        fn = pairs.pair_c16
    elif prop == "C20":
        jobs = [(j, seed * 100000 + j) for j in range(n // 2)]
        fn = pairs.pair_c20
    elif prop == "C19":
        jobs = [(j, seed * 100000 + j) for j in range(n * 2)]
        fn = pairs.pair_c19
    else:
        jobs = [(j, seed * 100000 + j // 4, 1 + j % 4) for j in range(n)]
        fn = pairs.pair_c15
    hist_rep, hdocs, herrs = None, [], []
    with ctx.Pool(16, initializer=_pair_init, initargs=(REPO,), maxtasksperchild=1) as pool:
        res = pool.map(fn, jobs, chunksize=1)
        if prop == "C15":
            # process histories enumerated by TLC from spec/CiwHist.tla, replayed into the library
            from harness import hist
            try:
                hist_rep, hs = hist.model_check(os.path.join(work, "hist"), tier)
            except RuntimeError as e:
                log("MACHINERY-ERROR", str(e)[-1500:])
                return 2
            chosen = hist.sample(hs, HIST_TIERS[tier], seed)
            hdocs, herrs = hist.make_pairs(pool, chosen, seed, hist.BOUNDS["Stages"], pid0=len(res))
            hist_rep["replayed"] = len(chosen)
            log("CiwHist: NonInterference holds on %d states; %d terminal histories, %d replayed -> %d pairs (%d errors)"
                % (hist_rep["ideal"]["distinct"], hist_rep["histories"], len(chosen), len(hdocs), len(herrs)))
    docs, errs = [], []
    for d, e in res:
        if e:
            errs.append(e)
        else:
            docs.append(d)
    docs += hdocs
    errs += herrs
    res = res + [None] * (len(hdocs) + len(herrs))
    if len(errs) > len(res) // 4:
        log("MACHINERY-ERROR pair generation failed:", errs[0][-1500:])
        return 2
    verdicts, states = tlc.run_pair_validation(work, docs)
    viol, kf = [], []
    open_f = [f for f in known if f["status"] == "open" and prop in f["property"]]
    for d, v in zip(docs, verdicts):
        for clause in v["fails"]:
            expl = [f for f in open_f if clause in f.get("signature", {}).get("clauses", [])
                    and (d.get("history") in f["signature"].get("histories", [d.get("history")]))
                    and ("spf" not in f["signature"] or (d.get("scenario") or {}).get("spf") == f["signature"]["spf"])]
            if expl:
                kf.append((expl[0], clause, d))
            else:
                viol.append((clause, d, v))
    cov = {"states": max(states, 1), "transitions": max(states - 1, 1), "traces_validated_against_impl": len(docs),
           "pairs": len(docs), "generation_errors": len(errs), "exhaustive": False,
           "evaluations": len(docs),
           "distinct_nontrivial": len(set((json.dumps(d.get("scenario", d.get("seed")), sort_keys=True)[:200], d.get("history"),
                                           len(d["a"]["recs"]) > 0) for d in docs if len(d["a"]["recs"]) > 0)),
           "rule": "a pair is distinct by (scenario, history shape / split points) and non-trivial when the reference run wrote at least one record",
           "samples": [{"seed": d["seed"], "history": d.get("history"), "splits": d.get("splits"),
                        "records": len(d["a"]["recs"]), "first_records": d["a"]["recs"][:2], "verdict": v}
                       for d, v in list(zip(docs, verdicts))[:2]],
           "known_findings_seen": sorted(set(f["id"] for f, _, _ in kf))}
    if hist_rep:
        cov["process_history_model"] = hist_rep
        cov["states"] += hist_rep["ideal"]["distinct"] + hist_rep["export_states"] + hist_rep.get("ideal_large", {}).get("distinct", 0)
        cov["transitions"] += hist_rep["ideal"]["states"]
    ev = {"property_id": prop, "tier": tier, "seed": seed, "level": "model_checking", "coverage": cov,
          "assumptions": ["string equality of repr() is bit identity", "TLC evaluates CiwPair.tla correctly"],
          "violations": len(viol), "wall_s": round(time.time() - t0, 1)}
    if not os.environ.get("CIWVERIF_NOEVIDENCE"):
        evp = os.path.join(VERIF, "evidence", prop + ".json")
        if prop in ("C20", "C16", "C19") and os.path.exists(evp):
            # C20: the pair part (agreement with the float run) complements the tick-pipeline run that just wrote the file
            base = json.load(open(evp))
            base["coverage"]["float_agreement_pairs"] = len(docs)
            base["coverage"]["float_agreement_pair_violations"] = len(viol)
            base["coverage"]["traces_validated_against_impl"] += len(docs)
            base["violations"] = base.get("violations", 0) + len(viol)
            base["wall_s"] = round(base["wall_s"] + time.time() - t0, 1)
            ev = base
        json.dump(ev, open(evp, "w"), indent=1)
    seenk = set()
    for f, clause, d in kf:
        if (f["id"], clause) in seenk:
            continue
        seenk.add((f["id"], clause))
        log("KNOWN-FINDING: property=%s %s %s (clause %s, seed %s history %s)" %
            (prop, f["id"], f["what"], clause, d["seed"], d.get("history")))
    rc = 0
    rd = os.path.join(VERIF, "replays" if not os.environ.get("CIWVERIF_NOEVIDENCE") else ".work/selftest_replays")
    os.makedirs(rd, exist_ok=True)
    for k, (clause, d, v) in enumerate(viol[:8]):
        path = os.path.join(rd, "%s_%d.json" % (prop, k))
        json.dump({"property": prop, "clause": clause, "seed": d["seed"], "history": d.get("history"),
                   "splits": d.get("splits"), "scenario": d.get("scenario"), "detail": v["detail"],
                   "a_first": d["a"]["recs"][:3], "b_first": d["b"]["recs"][:3],
                   "a_busy": d["a"]["busy"], "b_busy": d["b"]["busy"], "a_util": d["a"]["util"], "b_util": d["b"]["util"]},
                  open(path, "w"), indent=1)
        log("VIOLATION property=%s replay=%s clause=%s seed=%s history=%s" % (prop, path, clause, d["seed"], d.get("history")))
        rc = 1
    shutil.rmtree(work, ignore_errors=True)
    log("%s %s: %d pairs judged, %d generation errors, wall %.0fs -> %s" %
        (prop, tier, len(docs), len(errs), time.time() - t0, "VIOLATION" if rc else "held"))
    return rc


def run_replay(path):
    """re-executes the scenario of a replay file against the current /repo and re-judges it with TLC"""
    from harness import tlc
    doc = json.load(open(path))
    prop = doc["property"]
    if "family" not in doc or doc.get("scenario") is None or doc.get("family") is None:
        log("replay files of pair checks are re-judged by re-running the check with VERIF_SEED=%s" % doc.get("seed"))
        return 2
    fam = doc["family"]
    if fam.startswith("replay:"):
        log("this trace came from a TLC behaviour (spec -> code); re-run the check to regenerate it")
        return 2
    job = (fam, doc["seed"], 400, 0.1 if (doc["seed"] % 100000) % 5 == 0 else 0.0)
    res = generate_traces([job], procs=1)
    _, t, err = res[0]
    if err:
        log("MACHINERY-ERROR", err)
        return 2
    slim = {k: t[k] for k in ("tid", "cfg", "init", "events", "final", "outcome", "crash", "scale")}
    verdicts, _, _ = tlc.run_trace_validation(os.path.join(VERIF, ".work", "replay_%d" % os.getpid()), [slim], name="r")
    viol, kf = judge(prop, verdicts, [t], load_known())
    log("replayed family=%s seed=%s: outcome %s, %d events; failed clauses of %s: %s" %
        (fam, doc["seed"], t["outcome"], len(t["events"]), prop, [(c, i) for c, i, _, _ in viol] or "none"))
    for f, clause, idx, _ in kf:
        log("KNOWN-FINDING: property=%s %s (clause %s)" % (prop, f["id"], clause))
    if viol:
        log("VIOLATION property=%s replay=%s" % (prop, path))
        return 1
    return 0


def main():
    ap = argparse.ArgumentParser()
    ap.add_argument("prop", nargs="?")
    ap.add_argument("--tier", default=os.environ.get("VERIF_TIER", "quick"))
    ap.add_argument("--replay")
    a = ap.parse_args()
    seed = int(os.environ.get("VERIF_SEED", "0"))
    try:
        if a.replay:
            rc = run_replay(a.replay)
        elif a.prop == "C15":
            rc = run_pair_check(a.prop, a.tier, seed)
        elif a.prop == "C16":
            # tick part (stops as `pause` steps of the specification) then the pairs with continuous distributions
            rc = run_check("C16", a.tier, seed)
            if rc != 2:
                rc = max(rc, run_pair_check("C16", a.tier, seed))
        else:
            rc = run_check(a.prop, a.tier, seed)
            if a.prop in ("C20", "C19") and rc != 2:
                rc = max(rc, run_pair_check(a.prop, a.tier, seed))
    except Exception:
        log("MACHINERY-ERROR", traceback.format_exc())
        rc = 2
    sys.exit(rc)


if __name__ == "__main__":
    main()
