"""debug helper: python -m harness.debug <family> <seed> [max_events] -> prints verdict and, for the first drift,
the spec's value vs the logged value of the differing fields"""
import copy, json, os, random, sys
from harness.families import FAMILIES
from harness.run import Run
from harness import tlc

def main():
    fam, seed = sys.argv[1], int(sys.argv[2])
    me = int(sys.argv[3]) if len(sys.argv) > 3 else 60
    adv = float(sys.argv[4]) if len(sys.argv) > 4 else 0.0
    rng = random.Random("%s/%d" % (fam, seed))
    sc = FAMILIES[fam](rng)
    print(json.dumps(sc))
    script = sc.pop("script", None)
    t = Run(copy.deepcopy(sc), seed=seed, max_events=me, tid=seed, adversarial=adv, script=script).execute()
    print("outcome", t["outcome"], t["crash"], "events", len(t["events"]))
    work = os.path.join(tlc.VERIF, ".work", "dbg")
    vs, st, wall = tlc.run_trace_validation(work, [t], name="d")
    v = vs[0]
    print(json.dumps(v, indent=0)[:3000])
    json.dump(t, open(os.path.join(work, "trace.json"), "w"))
    if v["drift"]:
        idx = min(d[0] for d in v["drift"])
        e = t["events"][idx - 1] if idx > 0 else t["init"]
        print("first drift at", idx, e["ev"])
        print("steps:", [(s["k"], s["n"], s["i"], s["d"], s["x"], s["y"], s["f"]) for s in e["steps"]])
        print("recs:", json.dumps(e["recs"]))
        if idx > 1:
            p = t["events"][idx - 2]
            print("pre nodes:", json.dumps(p["nodes"]))
            print("pre cu:", json.dumps(p["cu"]))
        print("post nodes:", json.dumps(e["nodes"]))
        print("post cu:", json.dumps(e["cu"]))
if __name__ == "__main__":
    main()
