"""Configuration families (DESIGN.md appendix D): random scenario generators for the
code -> spec drivers and small fixed instances for exhaustive TLC runs.

Every generator stays inside the domain of the properties that use it (R3) and, for
most of its budget, outside the triggers of the open known findings."""
import copy
import random

from .rec import INF

# ------------------------------------------------------------------ helpers


def tm(P):
    return {"kind": "tm", "P": P}


def rand_row(rng, N, self_ok=True, zero_bias=0.4):
    """numerators over 4 summing to <= 4"""
    row = [0] * N
    left = 4
    for d in rng.sample(range(N), N):
        if rng.random() < zero_bias:
            continue
        v = rng.randint(0, left)
        row[d] = v
        left -= v
    return row


def samples(rng, lo=0, hi=3, k=2):
    vals = sorted(set(rng.randint(lo, hi) for _ in range(k)))
    if vals == [0] and hi > 0:
        vals = [0, rng.randint(1, hi)]   # never only zero: a zero-time cycle would be a livelock of the model itself
    return vals


# ------------------------------------------------------------------ random families

def gen_core1(rng):
    c = rng.choice([0, 1, 1, 2, 2, 3, INF])
    qcap = rng.choice([0, 1, 2, INF, INF])
    sc = {"N": 1, "K": 1,
          "nodes": [{"c": c, "qcap": qcap if c < INF else INF}],
          "arrS": [[samples(rng, 0, 3, 3)]],
          "batchS": [[rng.choice([[1], [1], [0, 1, 2], [1, 2, 3], [2]])]],
          "svcS": [[samples(rng, 0, 4, 3)]],
          "syscap": rng.choice([INF, INF, 1, 2, 3]),
          "route": [tm([[rng.choice([0, 0, 1, 2])]])],
          "T": rng.randint(6, 25)}
    if rng.random() < 0.3:
        sc["nodes"][0]["bk"] = [[rng.choice([0, 1, 2, 4]) for _ in range(rng.randint(1, 4))]]
    return sc


def gen_tandem(rng, N=None, K=1):
    N = N or rng.choice([2, 2, 3])
    nodes = []
    for n in range(N):
        c = rng.choice([1, 1, 2, 2, 3, INF]) if rng.random() < 0.9 else 0
        nodes.append({"c": c, "qcap": (rng.choice([0, 0, 1, 2, INF]) if c < INF else INF)})
    arr = [[(samples(rng, 0, 3, 2) if (n == 0 or rng.random() < 0.4) else []) for _ in range(K)] for n in range(N)]
    if not any(arr[n][k] for n in range(N) for k in range(K)):
        arr[0][0] = [1, 2]
    sc = {"N": N, "K": K, "nodes": nodes, "arrS": arr,
          "svcS": [[samples(rng, 0, 3, 2) for _ in range(K)] for n in range(N)],
          "route": [tm([rand_row(rng, N) for _ in range(N)]) for _ in range(K)],
          "T": rng.randint(8, 30)}
    if rng.random() < 0.3:
        sc["batchS"] = [[([1, 2] if arr[n][k] else []) for k in range(K)] for n in range(N)]
    if rng.random() < 0.2:
        sc["syscap"] = rng.randint(2, 5)
    return sc


def gen_prio(rng, preempt=False):
    K = rng.choice([2, 2, 3])
    sc = gen_tandem(rng, N=rng.choice([1, 1, 2]), K=K)
    prios = [rng.randint(0, K - 1) for _ in range(K)]
    # priority classes must be 0..P-1 without gaps
    order = sorted(set(prios))
    sc["prio"] = [order.index(p) for p in prios]
    for n in range(sc["N"]):
        for k in range(K):
            if rng.random() < 0.7:
                sc["arrS"][n][k] = samples(rng, 1, 4, 2)
    for nd in sc["nodes"]:
        nd["disc"] = rng.choice(["FIFO", "FIFO", "LIFO", "SIRO"])
        if nd["c"] >= INF or nd["c"] == 0:
            nd["c"] = rng.choice([1, 2])
            nd["qcap"] = INF
        if preempt:
            # C11 domain: customers are never blocked -> uncapacitated queues
            nd["qcap"] = INF
            nd["pp"] = rng.choice([1, 2, 3])
    if preempt:
        sc["syscap"] = INF
    return sc


def gen_cls(rng):
    K = 2
    sc = gen_tandem(rng, N=2, K=K)
    same_prio = rng.random() < 0.5
    sc["prio"] = [0, 0] if same_prio else [0, 1]
    for nd in sc["nodes"]:
        if rng.random() < 0.7:
            rows = []
            for a in range(K):
                x = rng.choice([0, 0, 2, 4])
                row = [0] * K
                row[1 - a] = x
                row[a] = 4 - x
                rows.append(row)
            nd["ccm"] = rows
    for k in range(K):
        sc["arrS"][0][k] = samples(rng, 1, 3, 2)
    return sc


def gen_clsren(rng):
    """class change after service (possibly changing priority) followed by reneging / pre-emption downstream"""
    sc = gen_cls(rng)
    K = sc["K"]
    for n in range(sc["N"]):
        nd = sc["nodes"][n]
        if nd["c"] >= INF or nd["c"] == 0:
            nd["c"] = 1
        nd["qcap"] = INF
    sc["syscap"] = INF
    sc["patS"] = [[(samples(rng, 0, 4, 2) if rng.random() < 0.7 else []) for _ in range(K)] for n in range(sc["N"])]
    sc["patS"][1][0] = sc["patS"][1][0] or [1, 2]
    for n in range(sc["N"]):
        for k in range(K):
            sc["svcS"][n][k] = samples(rng, 1, 5, 2)
    return sc


def gen_jockey(rng):
    """reneging customers jockey to another node (user-defined router); optionally pre-emptive priorities"""
    K = rng.choice([1, 2])
    sc = {"N": 2, "K": K,
          "nodes": [{"c": rng.choice([1, 1, 2]), "qcap": INF}, {"c": rng.choice([1, 2]), "qcap": rng.choice([INF, INF, 1])}],
          "arrS": [[samples(rng, 1, 3, 2) for _ in range(K)], [(samples(rng, 1, 4, 2) if rng.random() < 0.5 else []) for _ in range(K)]],
          "svcS": [[samples(rng, 2, 7, 2) for _ in range(K)], [samples(rng, 1, 5, 2) for _ in range(K)]],
          "patS": [[samples(rng, 0, 4, 2) for _ in range(K)],
                   [(samples(rng, 1, 5, 2) if rng.random() < 0.5 else []) for _ in range(K)]],
          "prio": list(range(K)), "T": rng.randint(12, 35)}
    routers = [{"t": "leave", "jock": 2}, {"t": "leave"}]
    if rng.random() < 0.5:
        routers[0] = {"t": "direct", "to": 2, "jock": 2}
    sc["route"] = [{"kind": "nr", "routers": copy.deepcopy(routers)} for _ in range(K)]
    if K == 2 and rng.random() < 0.5:
        sc["nodes"][0]["pp"] = rng.choice([1, 2, 3])     # (pre-emption + reneging: open finding F8 may taint)
    return sc


def gen_ppren(rng):
    """reneging at nodes with pre-emptive priorities, two classes: a low-priority customer whose patience ran out while
    it was being served is pre-empted later (seeded change C02f: the reset of its reneging date removed -> a renege
    event in the past)"""
    while True:
        sc = gen_renege(rng)
        if sc["K"] == 2:
            break
    sc["prio"] = [0, 1]
    for nd in sc["nodes"]:
        nd["pp"] = rng.choice([1, 2, 3])
    for n in range(sc["N"]):
        sc["patS"][n][1] = samples(rng, 0, 3, 2)
        sc["svcS"][n][1] = samples(rng, 3, 8, 2)
    return sc


def gen_renege(rng):
    K = rng.choice([1, 2])
    sc = gen_tandem(rng, N=rng.choice([1, 2]), K=K)
    sc["prio"] = [0] * K if rng.random() < 0.5 else list(range(K))
    for n in range(sc["N"]):
        nd = sc["nodes"][n]
        if nd["c"] >= INF:
            nd["c"] = 1
        nd["qcap"] = rng.choice([INF, INF, 2])
    sc["patS"] = [[(samples(rng, 0, 4, 2) if rng.random() < 0.8 else []) for _ in range(K)] for n in range(sc["N"])]
    if not any(sc["patS"][n][k] for n in range(sc["N"]) for k in range(K)):
        sc["patS"][0][0] = [1, 3]
    for n in range(sc["N"]):
        for k in range(K):
            sc["svcS"][n][k] = samples(rng, 1, 5, 2)
    if rng.random() < 0.4:
        for nd in sc["nodes"]:
            nd["bk"] = [[rng.choice([0, 1, 2, 3, 4]) for _ in range(rng.randint(1, 4))] if rng.random() < 0.7 else []
                        for _ in range(K)]
    return sc


def gen_route(rng):
    N = 3
    K = 1
    sc = gen_tandem(rng, N=N, K=K)
    for nd in sc["nodes"]:
        if nd["c"] == 0:
            nd["c"] = 1
    kind = rng.choice(["nr", "nr", "pb", "fpb"])
    if kind == "nr":
        routers = []
        for n in range(N):
            t = rng.choice(["prob", "direct", "leave", "jsq", "lb", "cycle"])
            others = [m + 1 for m in range(N)]
            r = {"t": t}
            if t == "prob":
                ds = rng.sample(others, rng.randint(1, N))
                row = rand_row(rng, len(ds))
                r.update(dests=ds, probs=row)
            elif t == "direct":
                r["to"] = rng.choice(others + [-1])
            elif t in ("jsq", "lb"):
                r.update(dests=rng.sample(others, rng.randint(1, N)), tie=rng.choice(["random", "order"]))
            elif t == "cycle":
                r["cyc"] = [rng.choice(others + [-1]) for _ in range(rng.randint(1, 3))]
            routers.append(r)
        # make sure customers can leave: at least one router leads out
        if not any(r["t"] in ("leave",) or (r["t"] == "direct" and r["to"] == -1) or
                   (r["t"] == "cycle" and -1 in r["cyc"]) or
                   (r["t"] == "prob" and sum(r["probs"]) < 4) for r in routers):
            routers[-1] = {"t": "leave"}
        sc["route"] = [{"kind": "nr", "routers": routers}]
        if rng.random() < 0.4:
            # two classes given the very same routing object (a shared Cycle position, for instance)
            sc["K"] = 2
            sc["route"].append(dict(copy.deepcopy(sc["route"][0]), same=1))
            sc["arrS"] = [[row[0], samples(rng, 1, 3, 2)] for row in sc["arrS"]]
            sc["svcS"] = [[row[0], samples(rng, 1, 3, 2)] for row in sc["svcS"]]
            sc.pop("batchS", None)
    else:
        routes = []
        for _ in range(rng.randint(1, 3)):
            L = rng.randint(0, 3)
            if kind == "pb":
                routes.append([[rng.randint(1, N)] for _ in range(L)])
            else:
                routes.append([sorted(rng.sample(range(1, N + 1), rng.randint(1, N))) for _ in range(L)])
        sc["route"] = [{"kind": kind, "routes": routes, "rule": rng.choice(["any", "all"]),
                        "choice": rng.choice(["random", "jsq", "lb"])}]
        # process-based customers enter at the first node of their route in real use; any start node is valid
    return sc


def gen_fpbjsq(rng):
    """flexible process-based routing whose choices are made by join-shortest-queue / load balancing: the choice must
    be minimal among the *current* populations of the current set (of this simulation)"""
    N = 3
    sc = gen_tandem(rng, N=N, K=1)
    for nd in sc["nodes"]:
        nd["c"] = rng.choice([1, 1, 2])
        nd["qcap"] = INF
    sc["syscap"] = INF
    routes = []
    for _ in range(rng.randint(1, 3)):
        L = rng.randint(1, 3)
        routes.append([sorted(rng.sample(range(1, N + 1), rng.randint(2, N))) for _ in range(L)])
    sc["route"] = [{"kind": "fpb", "routes": routes, "rule": rng.choice(["any", "all"]), "choice": rng.choice(["jsq", "lb"])}]
    sc["arrS"] = [[samples(rng, 1, 2, 2)], [[]], [[]]]
    sc["svcS"] = [[samples(rng, 1, 6, 3)] for _ in range(N)]
    sc["T"] = rng.randint(15, 35)
    return sc


def rand_sched(rng, pre):
    m = rng.randint(1, 3)
    nums = [rng.choice([0, 1, 1, 2, 2, 3]) for _ in range(m)]
    if not any(nums):
        nums[rng.randrange(m)] = 1
    ends, t = [], 0
    for _ in range(m):
        t += rng.randint(1, 5)
        ends.append(t)
    return {"nums": nums, "ends": ends, "pre": pre, "off": rng.choice([0, 0, 1, 2, t, t + 1])}


def gen_sched(rng, pre_choices=(0,)):
    """server schedules; non-pre-emptive by default.  Downstream nodes are uncapacitated
    (a finishing overtime customer that gets blocked is finding F7; a pre-emptive shift end
    meeting a blocked customer is finding F4)"""
    N = rng.choice([1, 1, 2])
    K = rng.choice([1, 1, 2])
    sc = gen_tandem(rng, N=N, K=K)
    sc["prio"] = [0] * K if rng.random() < 0.5 else list(range(K))
    sc["syscap"] = INF
    for n, nd in enumerate(sc["nodes"]):
        nd["qcap"] = INF
        if nd["c"] >= INF or nd["c"] == 0:
            nd["c"] = 1
        if n == 0 or rng.random() < 0.4:
            nd["kind"] = "sched"
            nd["sched"] = rand_sched(rng, rng.choice(pre_choices))
            nd["c"] = 0
            if rng.random() < 0.25:
                nd["spf"] = rng.choice([1, 2])
    for n in range(N):
        for k in range(K):
            sc["svcS"][n][k] = samples(rng, 1, 5, 2)
            if sc["arrS"][n][k]:
                sc["arrS"][n][k] = samples(rng, 1, 3, 2)
    sc["T"] = rng.randint(12, 40)
    return sc


def gen_sharedrota(rng):
    """two (or three) nodes given the very same Schedule object: each must follow the timetable on its own"""
    sc = gen_sched(rng, pre_choices=(0, 0, 1, 2, 3))
    while sc["N"] < 2:
        sc = gen_sched(rng, pre_choices=(0, 0, 1, 2, 3))
    first = next((nd for nd in sc["nodes"] if nd.get("kind") == "sched"), None)
    for nd in sc["nodes"]:
        nd["kind"] = "sched"
        nd["c"] = 0
        nd["sched"] = copy.deepcopy(first["sched"])
    for n in range(sc["N"]):
        for k in range(sc["K"]):
            if not sc["arrS"][n][k]:
                sc["arrS"][n][k] = samples(rng, 1, 4, 2)
    return sc


def gen_schedblock(rng):
    """schedules (any pre-emption option) feeding capacitated nodes: blocking meets shift changes.
    Contains the triggers of findings F4 (pre-emptive shift end while blocked) and F7."""
    sc = gen_sched(rng, pre_choices=(0, 0, 1, 2, 3))
    if sc["N"] == 1:
        sc = gen_sched(rng, pre_choices=(0, 0, 1, 2, 3))
    if rng.random() < 0.4:
        # three nodes: two sources (one of them scheduled) feeding a small third node
        base = gen_tandem(rng, N=3, K=1)
        base["prio"] = [0]
        base["syscap"] = INF
        for n, nd in enumerate(base["nodes"]):
            if nd["c"] >= INF or nd["c"] == 0:
                nd["c"] = 1
        base["nodes"][0]["kind"] = "sched"
        base["nodes"][0]["c"] = 0
        base["nodes"][0]["sched"] = rand_sched(rng, rng.choice([0, 1, 2, 3]))
        base["arrS"] = [[samples(rng, 1, 3, 2)], [samples(rng, 1, 3, 2)], [[]][0:1]]
        base["arrS"][2] = [[]]
        base["svcS"] = [[samples(rng, 1, 4, 2)], [samples(rng, 1, 4, 2)], [samples(rng, 2, 7, 2)]]
        base["route"] = [tm([[0, 0, 4], [0, 0, 4], [0, 0, 0]])]
        base["T"] = rng.randint(15, 40)
        sc = base
    N = sc["N"]
    for n, nd in enumerate(sc["nodes"]):
        nd["qcap"] = rng.choice([0, 1, 2, INF])
        if nd.get("kind") == "sched" and rng.random() < 0.3:
            nd["spf"] = rng.choice([1, 2])
    if N >= 2:
        for r in sc["route"]:
            if r["kind"] == "tm":
                r["P"][0][1] = max(r["P"][0][1], 2)
                r["P"][0][0] = 0
                if sum(r["P"][0]) > 4:
                    r["P"][0] = [0, 4] + [0] * (N - 2)
    return sc


def gen_preblock(rng):
    """a pre-emptive shift change hits blocked customers, often: a scheduled node with a queue (customers wait before
    service) feeds a small slow node, optionally together with a second source.  This is the region of finding F4;
    the specification reproduces what the code does there, so anything else that goes wrong is still seen (R4)"""
    three = rng.random() < 0.4
    N = 3 if three else 2
    base = gen_tandem(rng, N=N, K=1)
    base["prio"] = [0]
    base["syscap"] = INF
    m = rng.randint(2, 3)
    nums = [rng.choice([1, 2]) if j % 2 == 0 else rng.choice([0, 1]) for j in range(m)]
    ends, t = [], 0
    for _ in range(m):
        t += rng.randint(2, 5)
        ends.append(t)
    base["nodes"][0].update({"kind": "sched", "c": 0, "qcap": INF,
                             "sched": {"nums": nums, "ends": ends, "pre": rng.choice([1, 1, 2, 3]), "off": rng.choice([0, 0, 1])}})
    for n in range(1, N):
        base["nodes"][n].update({"kind": "std", "c": 1, "qcap": INF})
    base["nodes"][N - 1]["qcap"] = rng.choice([0, 0, 1])
    base["arrS"] = [[samples(rng, 1, 2, 2)]] + [[[]] for _ in range(N - 1)]
    base["svcS"] = [[samples(rng, 1, 4, 2)] for _ in range(N)]
    base["svcS"][N - 1] = [samples(rng, 3, 8, 2)]
    if three:
        base["arrS"][1] = [samples(rng, 2, 4, 2)]
        base["route"] = [tm([[0, 0, 4], [0, 0, 4], [0, 0, 0]])]
    else:
        base["route"] = [tm([[0, 4], [0, 0]])]
    base.pop("batchS", None)
    base["T"] = rng.randint(20, 45)
    return base


def gen_overblock(rng):
    """non-pre-emptive schedules with one-server shifts feeding a small slow node: servers finishing in overtime keep
    (blocked) customers while the next shift's server is already there, so several customers of one node are blocked
    at once and must be unblocked in the order in which they became blocked"""
    three = rng.random() < 0.3
    N = 3 if three else 2
    base = gen_tandem(rng, N=N, K=1)
    base["prio"] = [0]
    base["syscap"] = INF
    m = rng.randint(2, 3)
    nums = [rng.choice([1, 1, 1, 2]) for _ in range(m)]
    ends, t = [], 0
    for _ in range(m):
        t += rng.randint(2, 4)
        ends.append(t)
    base["nodes"][0].update({"kind": "sched", "c": 0, "qcap": INF,
                             "sched": {"nums": nums, "ends": ends, "pre": 0, "off": rng.choice([0, 0, 1])}})
    for n in range(1, N):
        base["nodes"][n].update({"kind": "std", "c": 1, "qcap": rng.choice([0, 0, 1])})
    base["arrS"] = [[samples(rng, 1, 3, 2)]] + [[[]] for _ in range(N - 1)]
    base["svcS"] = [[samples(rng, 2, 5, 2)]] + [[samples(rng, 4, 9, 2)] for _ in range(N - 1)]
    if three:
        base["route"] = [tm([[0, 2, 2], [0, 0, 0], [0, 0, 0]])]
    else:
        base["route"] = [tm([[0, 4], [0, 0]])]
    base.pop("batchS", None)
    base["T"] = rng.randint(20, 45)
    if not three and rng.random() < 0.5:
        # the small node is itself on a non-pre-emptive schedule: the place a blocked customer waits for is freed by
        # a customer that was served in overtime (its server leaves with it)
        m2 = rng.randint(2, 3)
        e2, t2 = [], 0
        for _ in range(m2):
            t2 += rng.randint(2, 5)
            e2.append(t2)
        base["nodes"][1].update({"kind": "sched", "c": 0,
                                 "sched": {"nums": [rng.choice([1, 1, 2]) for _ in range(m2)], "ends": e2, "pre": 0,
                                           "off": 0}})
    return base


def gen_slotblock(rng):
    """slotted services (no pre-emption) feeding a small slow node: customers finish at a slotted node and are blocked
    there; later slots must not serve them again and must serve the waiting ones"""
    K = 1
    m = rng.randint(2, 3)
    slots, t = [], 0
    for _ in range(m):
        t += rng.randint(1, 4)
        slots.append(t)
    sc = {"N": 2, "K": K, "prio": [0],
          "nodes": [{"kind": "slot", "c": 0, "qcap": INF,
                     "slot": {"slots": slots, "sizes": [rng.choice([1, 2, 3]) for _ in range(m)],
                              "cap": rng.random() < 0.5, "pre": 0, "off": rng.choice([0, 1])}},
                    {"kind": "std", "c": 1, "qcap": rng.choice([0, 0, 1])}],
          "arrS": [[samples(rng, 1, 3, 2)], [[]]],
          "svcS": [[samples(rng, 1, 3, 2)], [samples(rng, 3, 8, 2)]],
          "route": [tm([[0, 4], [0, 0]])], "T": rng.randint(20, 45)}
    return sc


def gen_slotpreblock(rng):
    """capacitated pre-emptive slots feeding a small slow node: interrupted and blocked customers at a slotted node"""
    sc = gen_slotblock(rng)
    sl = sc["nodes"][0]["slot"]
    sl["cap"] = True
    sl["pre"] = rng.choice([1, 2, 3])
    sl["sizes"] = [rng.choice([0, 1, 2, 3]) for _ in sl["sizes"]]
    if not any(sl["sizes"]):
        sl["sizes"][0] = 2
    sc["svcS"][0][0] = samples(rng, 2, 7, 2)
    return sc


def gen_ccwren(rng):
    """class change while waiting together with reneging: the patience sampled at arrival keeps running whatever the
    class becomes"""
    sc = gen_ccw(rng)
    K = sc["K"]
    for nd in sc["nodes"]:
        nd["pp"] = 0
    sc["patS"] = [[samples(rng, 2, 9, 2) if rng.random() < 0.8 else [] for _ in range(K)] for n in range(sc["N"])]
    sc["patS"][0][0] = sc["patS"][0][0] or [3, 6]
    for k in range(K):
        sc["svcS"][0][k] = samples(rng, 3, 7, 2)
    return sc


def gen_trkclsren(rng):
    """per-class trackers with class changes after service followed by reneging downstream"""
    sc = gen_clsren(rng)
    sc["tracker"] = rng.choice(["nodeclass", "nodeclass", "system", "node"])
    sc["observed"] = list(range(sc["N"]))
    return sc


def gen_trkblock3(rng):
    """blockage-order tracker with two blocking destinations: the released customer is not always the oldest blockage"""
    sc = gen_tandem(rng, N=3, K=1)
    sc["prio"] = [0]
    sc["syscap"] = INF
    sc["nodes"][0].update({"kind": "std", "c": rng.choice([2, 3]), "qcap": INF})
    for n in (1, 2):
        sc["nodes"][n].update({"kind": "std", "c": 1, "qcap": rng.choice([0, 0, 1])})
    sc["arrS"] = [[samples(rng, 1, 2, 2)], [[]], [[]]]
    sc["svcS"] = [[samples(rng, 1, 3, 2)], [samples(rng, 3, 8, 2)], [samples(rng, 2, 6, 2)]]
    sc["route"] = [tm([[0, 2, 2], [0, 0, 0], [0, 0, 0]])]
    sc.pop("batchS", None)
    sc["tracker"] = rng.choice(["matrix", "matrix", "naive"])
    sc["observed"] = [0, 1, 2]
    sc["T"] = rng.randint(20, 40)
    return sc


def gen_trkreroute(rng):
    """state trackers with 'reroute' pre-emption: a rerouted customer leaves its node without a service completion"""
    sc = gen_reroute(rng)
    sc["tracker"] = rng.choice(["system", "node", "nodeclass", "naive", "matrix", "subset"])
    sc["observed"] = list(range(sc["N"]))
    return sc


def gen_trkccw(rng):
    """trackers that count customers per class, with customers that change class several times during one wait"""
    sc = gen_ppccw(rng) if rng.random() < 0.5 else gen_ccw(rng)
    K = sc["K"]
    for a in range(K):
        for b in range(K):
            if a != b and not sc["cct"][a][b] and rng.random() < 0.7:
                sc["cct"][a][b] = samples(rng, 1, 3, 2)
    for k in range(K):
        sc["svcS"][0][k] = samples(rng, 3, 8, 2)
    sc["tracker"] = rng.choice(["nodeclass", "nodeclass", "matrix", "system", "node"])
    sc["observed"] = list(range(sc["N"]))
    return sc


def gen_ppblock(rng):
    """pre-emptive priorities at a node whose customers get blocked: a blocked customer keeps its server, it is not a
    candidate victim (it is not in service any more)"""
    K = 2
    sc = gen_tandem(rng, N=2, K=K)
    sc["prio"] = [0, 1]
    sc["syscap"] = INF
    sc["nodes"][0].update({"kind": "std", "c": rng.choice([1, 2, 2]), "qcap": INF, "pp": rng.choice([1, 2, 3])})
    sc["nodes"][1].update({"kind": "std", "c": 1, "qcap": rng.choice([0, 0, 1])})
    sc["arrS"] = [[samples(rng, 2, 5, 2), samples(rng, 1, 3, 2)], [[], []]]
    sc["svcS"] = [[samples(rng, 1, 3, 2), samples(rng, 1, 4, 2)], [samples(rng, 3, 7, 2), samples(rng, 3, 7, 2)]]
    sc["route"] = [tm([[0, 4], [0, 0]]), tm([[0, rng.choice([2, 4])], [0, 0]])]
    sc.pop("batchS", None)
    sc["T"] = rng.randint(15, 40)
    return sc


def gen_ppzero(rng):
    """pre-emptive priorities at a node with a NON-pre-emptive schedule that has zero-server shifts: low-priority
    customers finishing in overtime meet high-priority arrivals while no server is scheduled"""
    sc = gen_ppsched(rng)
    nd = sc["nodes"][0]
    nd["sched"]["pre"] = 0
    nums = nd["sched"]["nums"]
    if 0 not in nums:
        nums[-1] = 0
    sc["svcS"][0][1] = samples(rng, 4, 9, 2)
    sc["arrS"][0][0] = samples(rng, 1, 3, 2)
    return sc


def gen_reroute(rng):
    """'reroute' pre-emption (priority pre-emption or pre-emptive schedule): documented capacity exception"""
    K = 2
    sc = gen_tandem(rng, N=2, K=K)
    sc["prio"] = [0, 1]
    sc["syscap"] = INF
    for nd in sc["nodes"]:
        nd["qcap"] = INF
        if nd["c"] >= INF or nd["c"] == 0:
            nd["c"] = 1
    if rng.random() < 0.6:
        sc["nodes"][0]["pp"] = 4
    else:
        sc["nodes"][0]["kind"] = "sched"
        sc["nodes"][0]["c"] = 0
        sc["nodes"][0]["sched"] = rand_sched(rng, 4)
    for n in range(2):
        for k in range(K):
            sc["svcS"][n][k] = samples(rng, 1, 5, 2)
    for k in range(K):
        sc["arrS"][0][k] = samples(rng, 1, 4, 2)
    if rng.random() < 0.4:
        sc["tracker"] = rng.choice(["system", "node", "naive", "nodeclass", "matrix"])
    if rng.random() < 0.3:
        routers = [{"t": "jsq", "dests": [1, 2], "tie": "order"}, {"t": "leave"}]
        sc["route"] = [{"kind": "nr", "routers": routers} for _ in range(K)]
    return sc


def gen_slot(rng):
    N = rng.choice([1, 1, 2])
    K = rng.choice([1, 1, 2])
    sc = gen_tandem(rng, N=N, K=K)
    sc["prio"] = [0] * K if rng.random() < 0.5 else list(range(K))
    sc["syscap"] = INF
    for n, nd in enumerate(sc["nodes"]):
        nd["qcap"] = INF
        if nd["c"] >= INF or nd["c"] == 0:
            nd["c"] = 1
        if n == 0 or rng.random() < 0.4:
            m = rng.randint(1, 3)
            slots, t = [], 0
            for _ in range(m):
                t += rng.randint(1, 4)
                slots.append(t)
            cap = rng.random() < 0.5
            nd["kind"] = "slot"
            nd["c"] = 0
            nd["slot"] = {"slots": slots, "sizes": [rng.choice([0, 1, 2, 3]) for _ in range(m)], "cap": cap,
                          "pre": (rng.choice([0, 1, 2, 3]) if cap else 0), "off": rng.choice([0, 0, 1, t, t + 1, 2 * t + 1])}
    for n in range(N):
        for k in range(K):
            sc["svcS"][n][k] = samples(rng, 1, 6, 2)
            if sc["arrS"][n][k]:
                sc["arrS"][n][k] = samples(rng, 1, 3, 2)   # no arrival at date 0 (finding F14)
    sc["T"] = rng.randint(12, 40)
    return sc


def gen_slotpre(rng):
    """capacitated pre-emptive slots with long services: repeated interruptions at shrinking slots"""
    K = rng.choice([1, 1, 2])
    m = rng.randint(2, 4)
    slots, t = [], 0
    for _ in range(m):
        t += rng.randint(1, 4)
        slots.append(t)
    sc = {"N": 1, "K": K, "prio": ([0] * K if rng.random() < 0.5 else list(range(K))),
          "nodes": [{"kind": "slot", "c": 0, "qcap": INF,
                     "slot": {"slots": slots, "sizes": [rng.choice([0, 1, 2, 3, 4]) for _ in range(m)], "cap": True,
                              "pre": rng.choice([1, 2, 3]), "off": rng.choice([0, 1, t, t + 2])}}],
          "arrS": [[samples(rng, 1, 2, 2) for _ in range(K)]],
          "svcS": [[samples(rng, 4, 12, 2) for _ in range(K)]],
          "route": [tm([[0]]) for _ in range(K)], "T": rng.randint(20, 45)}
    if rng.random() < 0.3:
        sc["batchS"] = [[[1, 2] for _ in range(K)]]
    return sc


def gen_slotren(rng):
    """reneging at slotted nodes (capacitated pre-emptive or not): a customer that has started service never reneges,
    also after its service was interrupted at a slot"""
    sc = gen_slotpre(rng) if rng.random() < 0.7 else gen_slot(rng)
    K, N = sc["K"], sc["N"]
    sc["patS"] = [[(samples(rng, 1, 9, 2) if (n == 0 or rng.random() < 0.5) else []) for _ in range(K)] for n in range(N)]
    for n, nd in enumerate(sc["nodes"]):
        if nd.get("kind") != "slot":
            sc["patS"][n] = [[] for _ in range(K)] if nd.get("c", 1) >= INF else sc["patS"][n]
    return sc


def gen_renegesched(rng):
    """reneging at nodes with (pre-emptive or not) server schedules, including zero-server shifts"""
    K = rng.choice([1, 2])
    N = rng.choice([1, 1, 2])
    sc = gen_tandem(rng, N=N, K=K)
    sc["prio"] = [0] * K if rng.random() < 0.6 else list(range(K))
    sc["syscap"] = INF
    for n, nd in enumerate(sc["nodes"]):
        nd["qcap"] = INF
        if nd["c"] >= INF or nd["c"] == 0:
            nd["c"] = 1
        if n == 0 or rng.random() < 0.5:
            nd["kind"] = "sched"
            nd["c"] = 0
            nd["sched"] = rand_sched(rng, rng.choice([0, 1, 1, 2, 3]))
    sc["patS"] = [[(samples(rng, 1, 6, 2) if rng.random() < 0.8 else []) for _ in range(K)] for n in range(N)]
    sc["patS"][0][0] = sc["patS"][0][0] or [2, 4]
    for n in range(N):
        for k in range(K):
            sc["svcS"][n][k] = samples(rng, 2, 7, 2)
            if sc["arrS"][n][k]:
                sc["arrS"][n][k] = samples(rng, 1, 3, 2)
    sc["T"] = rng.randint(15, 40)
    return sc


def gen_infblock(rng):
    """infinite-server and slotted nodes (no server objects) in front of small capacitated nodes, with batches and
    few distinct service times: simultaneous completions, blocking and unblocking out of server-less nodes"""
    N = rng.choice([2, 2, 3])
    sc = gen_tandem(rng, N=N, K=1)
    sc["prio"] = [0]
    sc["syscap"] = INF
    first = sc["nodes"][0]
    if rng.random() < 0.7:
        first["kind"] = "std"
        first["c"] = INF
        first["qcap"] = INF
    else:
        first["kind"] = "slot"
        first["c"] = 0
        first["qcap"] = INF
        first["slot"] = {"slots": [rng.randint(1, 3)], "sizes": [rng.choice([2, 3, 4])], "cap": False, "pre": 0, "off": 0}
    for nd in sc["nodes"][1:]:
        nd["c"] = rng.choice([1, 1, 2])
        nd["qcap"] = rng.choice([0, 0, 1])
    P = [[0] * N for _ in range(N)]
    for d in range(1, N):
        P[0][d] = 4 // (N - 1)
    for n in range(1, N):
        P[n][0] = rng.choice([0, 0, 1])
        if n + 1 < N:
            P[n][n + 1] = rng.choice([0, 2])
    sc["route"] = [tm(P)]
    sc["arrS"] = [[samples(rng, 1, 2, 2)]] + [[[]] for _ in range(N - 1)]
    sc["batchS"] = [[[1, 2, 3]]] + [[[]] for _ in range(N - 1)]
    v = rng.randint(1, 3)
    sc["svcS"] = [[[v]]] + [[samples(rng, 2, 5, 2)] for _ in range(N - 1)]
    sc["T"] = rng.randint(12, 30)
    return sc


def gen_ppsched(rng):
    """pre-emptive priorities at nodes with server schedules (zero-server shifts included)"""
    K = 2
    sc = gen_tandem(rng, N=rng.choice([1, 1, 2]), K=K)
    sc["prio"] = [0, 1]
    sc["syscap"] = INF
    for n, nd in enumerate(sc["nodes"]):
        nd["qcap"] = INF
        if nd["c"] >= INF or nd["c"] == 0:
            nd["c"] = 1
        if n == 0:
            m = rng.randint(2, 3)
            nums = [rng.choice([0, 1, 1, 2]) for _ in range(m)]
            if all(nums):
                nums[rng.randrange(m)] = 0
            if not any(nums):
                nums[0] = 1
            ends, t = [], 0
            for _ in range(m):
                t += rng.randint(2, 6)
                ends.append(t)
            nd["kind"] = "sched"
            nd["c"] = 0
            nd["sched"] = {"nums": nums, "ends": ends, "pre": rng.choice([0, 1, 2, 3]), "off": rng.choice([0, 0, 1])}
        nd["pp"] = rng.choice([1, 2, 3])
    for n in range(sc["N"]):
        for k in range(K):
            sc["svcS"][n][k] = samples(rng, 2, 7, 2)
            if n == 0:
                sc["arrS"][n][k] = samples(rng, 1, 4, 2)
    sc["T"] = rng.randint(15, 40)
    return sc


def gen_ccw(rng, N=1):
    """class change while waiting (class_change_time_distributions)"""
    K = rng.choice([2, 2, 3])
    sc = gen_tandem(rng, N=N, K=K)
    sc["prio"] = rng.choice([[0] * K, list(range(K)), [0] + [1] * (K - 1)])
    sc["syscap"] = INF
    for nd in sc["nodes"]:
        nd["qcap"] = INF
        if nd["c"] >= INF or nd["c"] == 0:
            nd["c"] = rng.choice([1, 2])
        if len(set(sc["prio"])) > 1 and rng.random() < 0.5:
            nd["pp"] = rng.choice([1, 2, 3])
    cct = [[[] for _ in range(K)] for _ in range(K)]
    for a in range(K):
        for b in range(K):
            if a != b and rng.random() < 0.6:
                cct[a][b] = samples(rng, 1, 5, 2)
    if not any(cct[a][b] for a in range(K) for b in range(K)):
        cct[0][1] = [1, 2]
    sc["cct"] = cct
    for n in range(N):
        for k in range(K):
            sc["svcS"][n][k] = samples(rng, 1, 5, 2)
            if n == 0:
                sc["arrS"][n][k] = samples(rng, 1, 3, 2)
    return sc


def gen_ppccw(rng):
    """pre-emptive priorities with resume / restart where the victims change class while they wait to be served again
    (two low-priority classes that turn into each other): the remaining / repeated service time must survive the
    class change"""
    K = 3
    sc = gen_tandem(rng, N=1, K=K)
    sc["prio"] = [0, 1, 1]
    sc["syscap"] = INF
    nd = sc["nodes"][0]
    nd["qcap"] = INF
    nd["c"] = rng.choice([1, 1, 2])
    nd["pp"] = rng.choice([1, 2, 1, 2, 3])
    cct = [[[] for _ in range(K)] for _ in range(K)]
    cct[1][2] = samples(rng, 1, 4, 2)
    if rng.random() < 0.6:
        cct[2][1] = samples(rng, 1, 4, 2)
    sc["cct"] = cct
    sc["svcS"][0][0] = samples(rng, 1, 3, 2)
    sc["svcS"][0][1] = samples(rng, 4, 9, 2)
    sc["svcS"][0][2] = samples(rng, 3, 8, 2)
    sc["arrS"][0][0] = samples(rng, 2, 5, 2)
    sc["arrS"][0][1] = samples(rng, 2, 6, 2)
    sc["arrS"][0][2] = samples(rng, 3, 9, 2) if rng.random() < 0.5 else []
    sc.pop("batchS", None)
    sc["T"] = rng.randint(20, 45)
    if rng.random() < 0.5:
        # three priority levels: a pre-empted lowest-priority customer is promoted while it waits and pre-empts in
        # turn: a pre-emptor that carries a resume / restart obligation itself
        sc["prio"] = [0, 1, 2]
        nd["c"] = rng.choice([1, 2, 2])
        nd["pp"] = rng.choice([1, 2])
        cct = [[[] for _ in range(K)] for _ in range(K)]
        cct[2][1] = samples(rng, 1, 4, 2)
        sc["cct"] = cct
        sc["arrS"][0][2] = samples(rng, 1, 3, 2)
        sc["arrS"][0][1] = samples(rng, 2, 6, 2)
        sc["arrS"][0][0] = samples(rng, 4, 9, 2) if rng.random() < 0.5 else []
        sc["svcS"][0][2] = samples(rng, 4, 9, 2)
    return sc


def gen_trk(rng):
    base = rng.choice([gen_tandem, gen_tandem, gen_cls, gen_renege, gen_ccw, lambda r: gen_prio(r, preempt=True), gen_core1])
    sc = base(rng)
    N = sc["N"]
    sc["tracker"] = rng.choice(["system", "node", "subset", "grouped", "nodeclass", "naive", "matrix"])
    obs = sorted(rng.sample(range(N), rng.randint(1, N)))
    sc["observed"] = obs
    nodes = list(range(N))
    rng.shuffle(nodes)
    cut = rng.randint(1, N)
    groups = [sorted(nodes[:cut])]
    if cut < N and rng.random() < 0.7:
        groups.append(sorted(nodes[cut:]))
    sc["groups"] = groups
    return sc


def gen_dead(rng):
    """restricted networks run until deadlock (finite integer servers, capacities, any topology)"""
    N = rng.choice([1, 2, 2, 3])
    K = rng.choice([1, 1, 2])
    nodes = [{"c": rng.choice([1, 1, 2]), "qcap": rng.choice([0, 0, 1, 2])} for _ in range(N)]
    arr = [[(samples(rng, 1, 3, 2) if (n == 0 or rng.random() < 0.6) else []) for _ in range(K)] for n in range(N)]
    route = []
    for _ in range(K):
        P = []
        for n in range(N):
            row = rand_row(rng, N, zero_bias=0.3)
            P.append(row)
        route.append(tm(P))
    sc = {"N": N, "K": K, "nodes": nodes, "arrS": arr,
          "svcS": [[samples(rng, 0, 3, 2) for _ in range(K)] for n in range(N)],
          "route": route, "stop": "deadlock", "detector": "digraph", "T": INF,
          "tracker": rng.choice(["naive", "naive", "matrix", "node", "system"])}
    if K == 2 and rng.random() < 0.5:
        sc["prio"] = [0, 1]
    return sc


def gen_exdead(rng):
    """exact arithmetic mode run until deadlock (times to deadlock are Decimals)"""
    sc = gen_dead(rng)
    sc["exact"] = rng.choice([10, 14, 20])
    sc["dec"] = 1
    return sc


def gen_pbar(rng):
    """runs with the progress bar switched on (float and exact mode, time and customer-count stops)"""
    r = rng.random()
    sc = gen_exact(rng) if r < 0.4 else (gen_stopcount(rng) if r < 0.7 else gen_core1(rng))
    for nd in sc["nodes"]:
        if nd.get("kind") == "sched":
            nd["kind"] = "std"
            nd["c"] = 1
    sc["pbar"] = 1
    return sc


def gen_exmix(rng):
    """exact arithmetic mode on the feature-combination sweep (schedules and most slotted nodes replaced by fixed
    servers: their timetables are computed in binary floating point, open finding F10)"""
    sc = gen_mix(rng)
    for nd in sc["nodes"]:
        if nd.get("kind") == "sched" or (nd.get("kind") == "slot" and rng.random() < 0.85):
            nd["kind"] = "std"
            nd["c"] = rng.choice([1, 2])
    sc["exact"] = rng.choice([10, 14, 20, 28])
    sc["dec"] = rng.choice([1, 1, 2])
    r = rng.random()
    if r < 0.2:
        sc["stop"] = rng.choice(["Finish", "Arrive", "Accept", "Complete"])
        sc["maxc"] = rng.randint(2, 9)
    return sc


def gen_exact(rng):
    """exact arithmetic mode on ordinary nodes: decimal samples with 1-2 digits"""
    base = rng.choice([gen_core1, gen_tandem, gen_prio, gen_renege, gen_sched, lambda r: gen_sched(r, pre_choices=(1, 2, 3)),
                       lambda r: gen_prio(r, preempt=True)])
    sc = base(rng)
    sc["exact"] = rng.choice([10, 14, 20, 28, 50])
    sc["dec"] = rng.choice([1, 1, 2])
    # decimal-looking values: ticks that are not multiples of the unit's inverse, so binary drift would show
    def dec_samples(vals):
        return sorted(set(max(0, v * rng.choice([1, 3, 7]) + rng.choice([0, 1, 3])) for v in vals)) or [1]
    N, K = sc["N"], sc["K"]
    for key in ("arrS", "svcS", "patS"):
        if key in sc:
            for n in range(N):
                for k in range(K):
                    if sc[key][n][k]:
                        sc[key][n][k] = dec_samples(sc[key][n][k])
    sc["T"] = sc["T"] * 5
    for nd in sc["nodes"]:
        if nd.get("kind") == "sched":
            s = nd["sched"]
            # shift dates that are exact in binary (multiples of 0.5 / 0.25) keep the schedule generator's float
            # sums exact, so that the rest of exact mode can be judged; other dates run into open finding F10
            dyadic = rng.random() < 0.7
            q = (5 if sc["dec"] == 1 else 25) if dyadic else 1
            t, ends = 0, []
            for e in s["ends"]:
                t += rng.randint(1, 8) * q if dyadic else rng.randint(3, 40)
                ends.append(t)
            s["ends"] = ends
            s["off"] = rng.choice([0, 0, 1, 2]) * q if dyadic else rng.choice([0, 0, 3, 7])
    return sc


def gen_exactT(rng):
    """exact mode where an event falls exactly on the horizon: a deterministic arrival stream with period a and
    T = m * a (nothing scheduled at or after T may be executed, in decimal arithmetic)"""
    sc = gen_core1(rng)
    sc["exact"] = rng.choice([10, 14, 20, 28])
    sc["dec"] = rng.choice([1, 1, 2])
    a = rng.choice([1, 3, 7, 11, 13])
    N, K = sc["N"], sc["K"]
    for n in range(N):
        for k in range(K):
            sc["arrS"][n][k] = [a] if (n == 0 and k == 0) else []
            sc["svcS"][n][k] = sorted(set(max(0, v * rng.choice([1, 3, 7]) + rng.choice([0, 1, 3])) for v in sc["svcS"][n][k])) or [1]
    sc.pop("batchS", None)
    sc.pop("patS", None)
    sc["T"] = a * rng.randint(3, 14)
    return sc


def gen_eps(rng):
    """exact arithmetic mode with samples of 16-17 significant digits (two-scale ticks, see scenario.frac_of): a
    tick A * 10^4 + B is the engine value A * 0.1 + B * 10^-16.  Only floats whose shortest repr is exactly that
    decimal are used, so `Decimal(str(sample))` is the intended value and any shortcut that goes through fewer
    digits or through the binary expansion leaves the lattice or shifts a date"""
    from decimal import Decimal
    from fractions import Fraction
    from harness.scenario import EPS_M
    base = rng.choice([gen_core1, gen_tandem, gen_prio, gen_renege, lambda r: gen_prio(r, preempt=True)])
    sc = base(rng)
    sc["exact"] = rng.choice([20, 28, 50])
    sc["dec"] = 1
    sc["eps"] = 16

    def fine(a):
        """a tick whose coarse part is a (units of 0.1) and whose float round-trips through str()"""
        if a == 0:
            return 0
        for _ in range(50):
            b = rng.randint(1, 7)
            x = Fraction(a, 10) + Fraction(b, 10 ** 16)
            if Fraction(Decimal(repr(float(x)))) == x:
                return a * EPS_M + b
        return a * EPS_M

    def conv(vals):
        return sorted(set(fine(max(0, v * rng.choice([3, 7, 11]) + rng.choice([0, 1, 3]))) for v in vals)) or [EPS_M]
    N, K = sc["N"], sc["K"]
    for key in ("arrS", "svcS", "patS"):
        if key in sc:
            for n in range(N):
                for k in range(K):
                    if sc[key][n][k]:
                        sc[key][n][k] = conv(sc[key][n][k])
    sc["T"] = sc["T"] * 8 * EPS_M
    return sc


def gen_ps(rng):
    """processor-sharing nodes (no blocking into/out of them, one priority class)"""
    N = rng.choice([1, 1, 2])
    sc = gen_tandem(rng, N=N, K=1)
    sc["syscap"] = INF
    for n, nd in enumerate(sc["nodes"]):
        nd["qcap"] = INF
        if n == 0 or rng.random() < 0.5:
            nd["kind"] = "ps"
            nd["c"] = rng.choice([1, 2, 2, 3, INF])
            nd["psR"] = rng.choice([1, 1, 2])
        elif nd["c"] == 0:
            nd["c"] = 1
    for n in range(N):
        sc["svcS"][n][0] = samples(rng, 1, 6, 3)
        if sc["arrS"][n][0]:
            sc["arrS"][n][0] = samples(rng, 1, 4, 2)    # no arrival at date 0 (finding F14)
    sc.pop("batchS", None)
    return sc


def gen_psprio(rng):
    """limited processor sharing in a network with priority classes: the customers that do not fit wait, and the place
    freed by a departure goes to the one that has waited longest"""
    K = 2
    sc = gen_tandem(rng, N=1, K=K)
    sc["prio"] = rng.choice([[1, 0], [0, 1], [0, 0]])
    sc["syscap"] = INF
    nd = sc["nodes"][0]
    nd.update({"kind": "ps", "c": rng.choice([1, 2, 2, 3]), "psR": rng.choice([1, 1, 2]), "qcap": INF})
    for k in range(K):
        sc["svcS"][0][k] = [rng.choice([2, 4, 6, 12]) for _ in range(2)]
        sc["arrS"][0][k] = samples(rng, 1, 4, 2)
    sc.pop("batchS", None)
    sc["T"] = rng.randint(20, 60)
    return sc


def gen_psfifo(rng):
    """an unlimited PS node (R = 1) and a FIFO single-server node fed with the same arrivals and requirements"""
    m = rng.randint(3, 10)
    ia = [rng.randint(1, 4) for _ in range(m)]
    req = [rng.randint(1, 5) for _ in range(m)]
    sc = {"N": 2, "K": 1, "nodes": [{"kind": "ps", "c": INF, "psR": 1}, {"c": 1}],
          "arrS": [[[1, 2, 3, 4]], [[1, 2, 3, 4]]], "svcS": [[[1, 2, 3, 4, 5]], [[1, 2, 3, 4, 5]]],
          "route": [tm([[0, 0], [0, 0]])], "T": 500, "couple": [1, 2],
          "script": {"ia/1/1": list(ia), "ia/2/1": list(ia), "svc/1/1": list(req), "svc/2/1": list(req),
                     "batch/1/1": [1] * m, "batch/2/1": [1] * m}}
    return sc


def gen_fault(rng):
    """a sampled input that is not a non-negative number (or a batch size that is not a non-negative integer)
    at some position of some stream: the engine must raise instead of carrying on"""
    sc = rng.choice([gen_core1, gen_tandem])(rng)
    sc["syscap"] = INF
    for nd in sc["nodes"]:
        if nd["c"] == 0:
            nd["c"] = 1
        nd.pop("bk", None)
    kind = rng.choice(["ia", "svc", "svc", "batch"])
    bad = rng.choice(["!neg", "!nan", "!none", "!str"] + (["!frac"] if kind == "batch" else []))
    k = rng.randint(0, 4)
    n = 1
    sc["arrS"][0][0] = sc["arrS"][0][0] or [1, 2]
    if kind == "batch":
        sc.setdefault("batchS", [[[1] if sc["arrS"][a][b] else [] for b in range(sc["K"])] for a in range(sc["N"])])
        sc["batchS"][0][0] = sc["batchS"][0][0] or [1]
        good = [rng.choice([b for b in sc["batchS"][0][0]]) for _ in range(k)]
    elif kind == "ia":
        good = [rng.choice(sc["arrS"][0][0]) for _ in range(k)]
    else:
        good = [rng.choice(sc["svcS"][0][0]) for _ in range(k)]
    sc["script"] = {"%s/%d/1" % (kind, n): good + [bad] + [1] * 50}
    sc["fault"] = 1
    sc["T"] = 40
    return sc


def gen_mix(rng):
    """feature-combination sweep: every feature of the scenario language may meet every other one
    (except 'reroute' pre-emption and arrivals at date 0).  Open findings taint some of these traces."""
    N = rng.choice([1, 2, 2, 3, 3])
    K = rng.choice([1, 2, 2])
    sc = gen_tandem(rng, N=N, K=K)
    sc["syscap"] = rng.choice([INF, INF, INF, 4, 6])
    sc["prio"] = rng.choice([[0] * K, list(range(K))])
    multi = len(set(sc["prio"])) > 1
    for n, nd in enumerate(sc["nodes"]):
        r = rng.random()
        nd["qcap"] = rng.choice([0, 1, 2, INF, INF])
        nd["disc"] = rng.choice(["FIFO", "FIFO", "LIFO", "SIRO"])
        if r < 0.25:
            nd["kind"] = "sched"
            nd["c"] = 0
            nd["sched"] = rand_sched(rng, rng.choice([0, 0, 1, 2, 3]))
            if rng.random() < 0.2:
                nd["spf"] = rng.choice([1, 2])
            if multi and rng.random() < 0.3:
                nd["pp"] = rng.choice([1, 2, 3])
        elif r < 0.4:
            m = rng.randint(1, 3)
            slots, t = [], 0
            for _ in range(m):
                t += rng.randint(1, 5)
                slots.append(t)
            cap = rng.random() < 0.6
            nd["kind"] = "slot"
            nd["c"] = 0
            nd["slot"] = {"slots": slots, "sizes": [rng.choice([0, 1, 2, 3]) for _ in range(m)], "cap": cap,
                          "pre": (rng.choice([0, 1, 2, 3]) if cap else 0), "off": rng.choice([0, 0, 1, t, t + 1, 2 * t + 1])}
        else:
            if nd["c"] >= INF:
                nd["qcap"] = INF
            elif nd["c"] == 0:
                nd["c"] = 1
            if multi and nd["c"] < INF and rng.random() < 0.3:
                nd["pp"] = rng.choice([1, 2, 3])
    if rng.random() < 0.35:
        sc["patS"] = [[(samples(rng, 0, 5, 2) if (sc["nodes"][n].get("kind", "std") in ("std", "sched") and
                                                   sc["nodes"][n]["c"] < INF and rng.random() < 0.7) else [])
                       for _ in range(K)] for n in range(N)]
    if K == 2 and rng.random() < 0.3:
        for nd in sc["nodes"]:
            if rng.random() < 0.7:
                x, y = rng.choice([0, 2, 4]), rng.choice([0, 2, 4])
                nd["ccm"] = [[4 - x, x], [y, 4 - y]]
    if K == 2 and N == 1 and rng.random() < 0.2:
        sc["cct"] = [[[], samples(rng, 1, 5, 2)], [[], []]]
    if rng.random() < 0.25:
        for nd in sc["nodes"]:
            nd["bk"] = [[rng.choice([0, 1, 2, 4]) for _ in range(rng.randint(1, 3))] if rng.random() < 0.5 else [] for _ in range(K)]
    if rng.random() < 0.3:
        sc["tracker"] = rng.choice(["system", "node", "naive", "nodeclass", "matrix"])
    if N >= 2 and rng.random() < 0.25:
        # join-shortest-queue / load-balancing routing out of node 1 (the rest leaves or routes on)
        dests = list(range(2, N + 1)) + ([1] if rng.random() < 0.3 else [])
        routers = [{"t": rng.choice(["jsq", "lb"]), "dests": dests, "tie": rng.choice(["random", "order"])}]
        for n in range(1, N):
            routers.append(rng.choice([{"t": "leave"}, {"t": "prob", "dests": [1], "probs": [rng.choice([0, 1, 2])]}]))
        sc["route"] = [{"kind": "nr", "routers": copy.deepcopy(routers)} for _ in range(K)]
    for n in range(N):
        for k in range(K):
            sc["svcS"][n][k] = samples(rng, 1, 6, 3)
            if sc["arrS"][n][k]:
                sc["arrS"][n][k] = samples(rng, 1, 4, 2)
    sc["T"] = rng.randint(15, 45)
    return sc


def gen_mix2(rng):
    """the feature mixture crossed with the remaining dimensions: stop rule, deadlock detector bookkeeping while the
    run is stopped by time, process-based / flexible routing, several simulate calls, progress bar"""
    sc = gen_mix(rng)
    N, K = sc["N"], sc["K"]
    if rng.random() < 0.25:
        sc["stop"] = rng.choice(["Finish", "Arrive", "Accept", "Complete"])
        sc["maxc"] = rng.randint(2, 12)
    elif rng.random() < 0.2:
        T = sc["T"]
        sc["splits"] = sorted(set(rng.randint(1, T - 1) for _ in range(rng.randint(1, 3))))
    if rng.random() < 0.25:
        sc["detector"] = "digraph"
    if rng.random() < 0.25:
        kind = rng.choice(["pb", "fpb"])
        routes = []
        for _ in range(rng.randint(1, 3)):
            L = rng.randint(0, 3)
            if kind == "pb":
                routes.append([[rng.randint(1, N)] for _ in range(L)])
            else:
                routes.append([sorted(rng.sample(range(1, N + 1), rng.randint(1, N))) for _ in range(L)])
        r = {"kind": kind, "routes": routes, "rule": rng.choice(["any", "all"]), "choice": rng.choice(["random", "jsq", "lb"])}
        sc["route"] = [copy.deepcopy(r) for _ in range(K)]
    if rng.random() < 0.1 and not sc.get("splits"):
        sc["pbar"] = 1
    return sc


def gen_pause(rng):
    """a run made of several simulate_until_max_time calls (stops logged as `pause` pseudo-events)"""
    base = rng.choice([gen_core1, gen_tandem, gen_tandem, gen_prio, gen_sched, gen_renege, gen_cls,
                       lambda r: gen_prio(r, preempt=True), lambda r: gen_sched(r, pre_choices=(1, 2, 3))])
    sc = base(rng)
    T = sc["T"]
    k = rng.randint(1, 4)
    sc["splits"] = sorted(set(rng.randint(0, max(T - 1, 1)) for _ in range(k)))
    sc["splits"] = [t for t in sc["splits"] if t < T]
    for nd in sc["nodes"]:
        if nd.get("c", 1) == 0 and nd.get("kind", "std") == "std":
            nd["c"] = 1
    return sc


def gen_date0(rng):
    """customers arriving at date exactly 0 at slotted and processor-sharing nodes (first inter-arrival sample 0)"""
    sc = rng.choice([gen_slot, gen_ps, gen_slotpre])(rng)
    for n in range(sc["N"]):
        for k in range(sc["K"]):
            if sc["arrS"][n][k]:
                sc["arrS"][n][k] = [0, 1, 2, 3]
    sc["script"] = {"ia/1/1": [0, 0, 1, 2, 1, 0, 2, 1, 1, 2, 1, 1, 2, 1, 3, 1, 2, 2, 1, 1] * 3}
    return sc


def gen_dead3(rng):
    """three nodes: a circular wait between multi-server nodes that is NOT a deadlock while one server still works,
    next to a node that can deadlock on its own (self-loop): knots among several strongly connected components"""
    c1, c2 = rng.choice([(2, 1), (2, 2), (1, 2), (3, 1)])
    sc = {"N": 3, "K": 1,
          "nodes": [{"c": c1, "qcap": 0}, {"c": c2, "qcap": 0}, {"c": 1, "qcap": rng.choice([0, 0, 1])}],
          "arrS": [[samples(rng, 1, 3, 2)], [samples(rng, 1, 3, 2)], [samples(rng, 2, 5, 2)]],
          "svcS": [[samples(rng, 1, 6, 3)], [samples(rng, 1, 6, 3)], [samples(rng, 1, 4, 2)]],
          "route": [tm([[0, rng.choice([2, 3, 4]), 0], [rng.choice([2, 3, 4]), 0, 0], [0, 0, rng.choice([1, 2, 3])]])],
          "stop": "deadlock", "detector": "digraph", "T": INF, "tracker": rng.choice(["naive", "matrix", "node"])}
    return sc


def gen_jsqsched(rng):
    """join-shortest-queue / load balancing towards scheduled, slotted and ordinary nodes: the waiting line of a node
    with overtime servers, zero-server shifts or slots is not (population - current number of servers)"""
    N = 3
    K = 1
    sc = gen_tandem(rng, N=N, K=K)
    sc["syscap"] = INF
    sc["nodes"][0] = {"c": INF, "qcap": INF}
    for n in (1, 2):
        nd = {"qcap": INF, "c": rng.choice([1, 2])}
        r = rng.random()
        if r < 0.5:
            nd["kind"] = "sched"
            nd["c"] = 0
            m = rng.randint(2, 3)
            ends, t = [], 0
            for _ in range(m):
                t += rng.randint(2, 6)
                ends.append(t)
            nd["sched"] = {"nums": [rng.choice([0, 1, 2, 3]) for _ in range(m)], "ends": ends,
                           "pre": rng.choice([0, 0, 0, 1, 2]), "off": 0}
            if not any(nd["sched"]["nums"]):
                nd["sched"]["nums"][0] = 2
        elif r < 0.65:
            nd["kind"] = "slot"
            nd["c"] = 0
            nd["slot"] = {"slots": [rng.randint(2, 4)], "sizes": [rng.choice([1, 2, 3])], "cap": False, "pre": 0, "off": 0}
        sc["nodes"][n] = nd
    kind = rng.choice(["jsq", "jsq", "lb"])
    routers = [{"t": kind, "dests": rng.choice([[2, 3], [3, 2]]), "tie": rng.choice(["order", "random"])},
               {"t": "leave"}, {"t": "leave"}]
    sc["route"] = [{"kind": "nr", "routers": routers}]
    sc["arrS"] = [[samples(rng, 1, 2, 2)], [[]], [[]]]
    sc["svcS"] = [[[0, 1]], [samples(rng, 2, 7, 2)], [samples(rng, 2, 7, 2)]]
    sc.pop("batchS", None)
    sc["T"] = rng.randint(15, 35)
    return sc


def gen_stopcount(rng):
    base = rng.choice([gen_core1, gen_tandem, gen_prio, gen_renege, gen_cls])
    sc = base(rng)
    sc["stop"] = rng.choice(["Complete", "Finish", "Arrive", "Accept"])
    sc["maxc"] = rng.randint(1, 8)
    # the arrival process must keep going until the count is reached
    K = sc["K"]
    sc["arrS"][0][0] = [v for v in sc["arrS"][0][0] if v > 0] or [1, 2]
    if sc["stop"] in ("Complete", "Finish", "Accept"):
        for nd in sc["nodes"]:
            if nd["c"] == 0:
                nd["c"] = 1
        if "batchS" in sc:
            sc["batchS"][0][0] = [b for b in sc["batchS"][0][0] if b > 0] or [1]
        sc["syscap"] = INF
        for n in range(sc["N"]):
            for k in range(K):
                sc["svcS"][n][k] = sc["svcS"][n][k] or [1]
    if sc["stop"] == "Complete":
        # completions must be possible: leave probability, no blocking deadlock -> uncapacitated
        for nd in sc["nodes"]:
            nd["qcap"] = INF
        for r in sc["route"]:
            if r["kind"] == "tm":
                r["P"] = [[min(v, 1) for v in row] for row in r["P"]]
    if rng.random() < 0.4 and sc["N"] == 1:
        nd = sc["nodes"][0]
        if nd["c"] < INF and nd["c"] > 0:
            sc["patS"] = [[samples(rng, 0, 3, 2)] + [[] for _ in range(K - 1)]]
    if rng.random() < 0.4:
        for nd in sc["nodes"]:
            nd["bk"] = [[rng.choice([0, 0, 1, 2]) for _ in range(rng.randint(1, 3))] for _ in range(K)]
    return sc


FAMILIES = {
    "ccwren": gen_ccwren,
    "trkclsren": gen_trkclsren,
    "trkblock3": gen_trkblock3,
    "sharedrota": gen_sharedrota,
    "trkreroute": gen_trkreroute,
    "psprio": gen_psprio,
    "mix2": gen_mix2,
    "exmix": gen_exmix,
    "exdead": gen_exdead,
    "pbar": gen_pbar,
    "fpbjsq": gen_fpbjsq,
    "exactT": gen_exactT,
    "slotpreblock": gen_slotpreblock,
    "slotblock": gen_slotblock,
    "ppzero": gen_ppzero,
    "ppblock": gen_ppblock,
    "overblock": gen_overblock,
    "trkccw": gen_trkccw,
    "preblock": gen_preblock,
    "slotren": gen_slotren,
    "ppccw": gen_ppccw,
    "eps": gen_eps,
    "stopcount": gen_stopcount,
    "trk": gen_trk,
    "dead3": gen_dead3,
    "jsqsched": gen_jsqsched,
    "date0": gen_date0,
    "pause": gen_pause,
    "infblock": gen_infblock,
    "ppsched": gen_ppsched,
    "slotpre": gen_slotpre,
    "renegesched": gen_renegesched,
    "jockey": gen_jockey,
    "ppren": gen_ppren,
    "mix": gen_mix,
    "fault": gen_fault,
    "ps": gen_ps,
    "psfifo": gen_psfifo,
    "exact": gen_exact,
    "dead": gen_dead,
    "clsren": gen_clsren,
    "sched": gen_sched,
    "schedblock": gen_schedblock,
    "reroute": gen_reroute,
    "schedpre": lambda rng: gen_sched(rng, pre_choices=(1, 2, 3)),
    "slot": gen_slot,
    "ccw": gen_ccw,
    "ccw2": lambda rng: gen_ccw(rng, N=2),
    "core1": gen_core1,
    "tandem": gen_tandem,
    "prio": gen_prio,
    "preempt": lambda rng: gen_prio(rng, preempt=True),
    "cls": gen_cls,
    "renege": gen_renege,
    "route": gen_route,
}

# ------------------------------------------------------------------ exhaustive instances


def mc_instances(name, tier):
    """small fixed configurations for exhaustive TLC: list of (scenario list, max_created)"""
    big = tier == "thorough"
    if name == "core1":
        fam = []
        for c in ([1, 2, INF] if not big else [0, 1, 2, INF]):
            for qcap in ([0, 1, INF] if c < INF else [INF]):
                for syscap in [INF, 2]:
                    fam.append({"N": 1, "K": 1, "nodes": [{"c": c, "qcap": qcap}], "syscap": syscap,
                                "arrS": [[[0, 1, 2]]], "batchS": [[[0, 1, 2]]], "svcS": [[[0, 1, 2]]],
                                "route": [tm([[0]])], "T": 4 if not big else 6})
        return [(fam, 3 if not big else 5)]
    if name == "tandem":
        fam = []
        for c1, q1, c2, q2 in [(1, 1, 1, 0), (2, 0, 1, 0), (1, 0, 2, 1)]:
            for P in ([[0, 4], [2, 0]], [[2, 2], [2, 0]], [[0, 4], [0, 2]]):
                fam.append({"N": 2, "K": 1, "nodes": [{"c": c1, "qcap": q1}, {"c": c2, "qcap": q2}],
                            "arrS": [[[1, 2]], [[]]], "svcS": [[[1, 2]], [[1, 2]]],
                            "route": [tm(P)], "T": 6 if not big else 9})
        return [(fam, 3 if not big else 5)]
    if name == "tri":
        fam = []
        for P in ([[0, 4, 0], [0, 0, 4], [2, 0, 0]], [[0, 2, 2], [2, 0, 2], [0, 4, 0]]):
            fam.append({"N": 3, "K": 1, "nodes": [{"c": 1, "qcap": 0}, {"c": 1, "qcap": 0}, {"c": 1, "qcap": 1}],
                        "arrS": [[[1, 2]], [[]], [[2]]], "svcS": [[[1, 2]], [[1]], [[2]]],
                        "route": [tm(P)], "T": 8 if not big else 10})
        return [(fam, 5 if not big else 6)]
    if name == "prio":
        fam = []
        for disc in ["FIFO", "LIFO", "SIRO"]:
            for c in [1, 2]:
                fam.append({"N": 1, "K": 2, "prio": [0, 1], "nodes": [{"c": c, "disc": disc}],
                            "arrS": [[[1, 2], [1]]], "svcS": [[[1, 3], [2]]],
                            "route": [tm([[0]]), tm([[0]])], "T": 9 if not big else 11})
        return [(fam, 6 if not big else 7)]
    if name == "preempt":
        fam = []
        for pp in [1, 2, 3]:
            for c in [1, 2]:
                fam.append({"N": 1, "K": 2, "prio": [0, 1], "nodes": [{"c": c, "pp": pp}],
                            "arrS": [[[2, 3], [1]]], "svcS": [[[1, 2], [2, 3]]],
                            "route": [tm([[0]]), tm([[0]])], "T": 9 if not big else 11})
        return [(fam, 6 if not big else 7)]
    if name == "cls":
        fam = []
        for prio in ([0, 0], [0, 1]):
            fam.append({"N": 2, "K": 2, "prio": prio,
                        "nodes": [{"c": 1, "qcap": 1, "ccm": [[2, 2], [0, 4]]}, {"c": 1, "qcap": 0, "ccm": [[4, 0], [4, 0]]}],
                        "arrS": [[[1, 2], []], [[], []]], "svcS": [[[1], [2]], [[1], [2]]],
                        "route": [tm([[0, 4], [0, 0]]), tm([[0, 2], [2, 0]])], "T": 7 if not big else 9})
        return [(fam, 5 if not big else 6)]
    if name == "renege":
        fam = []
        for c in [1, 2]:
            fam.append({"N": 1, "K": 1, "nodes": [{"c": c, "bk": [[0, 2, 4]]}],
                        "arrS": [[[0, 1, 2]]], "svcS": [[[1, 3]]], "patS": [[[0, 1, 2]]],
                        "route": [tm([[0]])], "T": 5 if not big else 6})
        return [(fam, 4 if not big else 5)]
    if name == "route":
        fam = []
        routers = [{"t": "jsq", "dests": [2, 3], "tie": "random"}, {"t": "cycle", "cyc": [3, -1]}, {"t": "leave"}]
        fam.append({"N": 3, "K": 1, "nodes": [{"c": 1}, {"c": 1}, {"c": 1}],
                    "arrS": [[[1]], [[]], [[2]]], "svcS": [[[1]], [[1, 2]], [[2]]],
                    "route": [{"kind": "nr", "routers": routers}], "T": 6 if not big else 8})
        routers2 = [{"t": "lb", "dests": [3, 2], "tie": "order"}, {"t": "prob", "dests": [3], "probs": [2]},
                    {"t": "direct", "to": -1}]
        fam.append({"N": 3, "K": 1, "nodes": [{"c": 1}, {"c": 2}, {"c": 1}],
                    "arrS": [[[1]], [[]], [[]]], "svcS": [[[1]], [[1, 2]], [[2]]],
                    "route": [{"kind": "nr", "routers": routers2}], "T": 6 if not big else 8})
        fam.append({"N": 3, "K": 1, "nodes": [{"c": 1}, {"c": 1}, {"c": 1}],
                    "arrS": [[[1, 2]], [[]], [[]]], "svcS": [[[1]], [[1, 2]], [[1]]],
                    "route": [{"kind": "pb", "routes": [[[2], [3]], [[3]], []]}], "T": 6 if not big else 8})
        fam.append({"N": 3, "K": 1, "nodes": [{"c": 1}, {"c": 1}, {"c": 1}],
                    "arrS": [[[1, 2]], [[]], [[]]], "svcS": [[[1]], [[1, 2]], [[1]]],
                    "route": [{"kind": "fpb", "routes": [[[2, 3]], [[3], [1, 2]]], "rule": "all", "choice": "jsq"}],
                    "T": 6 if not big else 8})
        return [(fam, 4 if not big else 5)]
    if name == "sched":
        fam = []
        for nums, ends, off in ([[1, 0], [2, 4], 0], [[2, 1], [3, 5], 1], [[0, 2, 1], [1, 3, 4], 0], [[1, 2], [1, 2], 3]):
            fam.append({"N": 1, "K": 1, "nodes": [{"kind": "sched", "c": 0, "sched": {"nums": nums, "ends": ends, "pre": 0, "off": off}}],
                        "arrS": [[[1, 2]]], "svcS": [[[1, 3]]], "route": [tm([[0]])], "T": 9 if not big else 12})
        return [(fam, 4 if not big else 5)]
    if name == "schedpre":
        fam = []
        for pre in [1, 2, 3]:
            for nums, ends in ([[1, 0], [2, 4]], [[2, 1], [3, 5]]):
                fam.append({"N": 1, "K": 2, "prio": [0, 1],
                            "nodes": [{"kind": "sched", "c": 0, "sched": {"nums": nums, "ends": ends, "pre": pre, "off": 0}}],
                            "arrS": [[[1, 2], [2]]], "svcS": [[[2, 3], [3]]], "route": [tm([[0]]), tm([[0]])],
                            "T": 11 if not big else 14})
        return [(fam, 5 if not big else 6)]
    if name == "slot":
        fam = []
        for cap, pre in [(False, 0), (True, 0), (True, 1), (True, 3)]:
            fam.append({"N": 1, "K": 1, "nodes": [{"kind": "slot", "c": 0,
                        "slot": {"slots": [2, 3], "sizes": [2, 1], "cap": cap, "pre": pre, "off": 0}}],
                        "arrS": [[[1, 2]]], "batchS": [[[1, 2]]], "svcS": [[[1, 4]]], "route": [tm([[0]])],
                        "T": 9 if not big else 12})
        fam.append({"N": 1, "K": 1, "nodes": [{"kind": "slot", "c": 0,
                    "slot": {"slots": [1, 2], "sizes": [1, 2], "cap": False, "pre": 0, "off": 3}}],
                    "arrS": [[[1, 2]]], "batchS": [[[1, 2]]], "svcS": [[[1, 4]]], "route": [tm([[0]])],
                    "T": 9 if not big else 12})
        return [(fam, 5 if not big else 6)]
    if name == "overblock":
        fam = []
        for nums, ends in ([[1, 1], [2, 4]], [[1, 2], [2, 5]]):
            for q2 in (0, 1):
                fam.append({"N": 2, "K": 1,
                            "nodes": [{"kind": "sched", "c": 0, "sched": {"nums": nums, "ends": ends, "pre": 0, "off": 0}},
                                      {"c": 1, "qcap": q2}],
                            "arrS": [[[1, 2]], [[]]], "svcS": [[[2, 3]], [[3, 4]]],
                            "route": [tm([[0, 4], [0, 0]])], "T": 8 if not big else 11})
        fam.append({"N": 2, "K": 1,
                    "nodes": [{"kind": "sched", "c": 0, "sched": {"nums": [1, 1], "ends": [2, 4], "pre": 0, "off": 0}},
                              {"kind": "sched", "c": 0, "qcap": 0, "sched": {"nums": [1, 1], "ends": [3, 6], "pre": 0, "off": 0}}],
                    "arrS": [[[1, 2]], [[]]], "svcS": [[[2, 3]], [[3, 4]]],
                    "route": [tm([[0, 4], [0, 0]])], "T": 8 if not big else 11})
        return [(fam, 4 if not big else 5)]
    if name == "ppblock":
        fam = []
        for pp in [1, 2, 3]:
            for c1 in (1, 2):
                fam.append({"N": 2, "K": 2, "prio": [0, 1], "nodes": [{"c": c1, "pp": pp}, {"c": 1, "qcap": 0}],
                            "arrS": [[[3], [1, 2]], [[], []]], "svcS": [[[1, 2], [2]], [[4], [3, 4]]],
                            "route": [tm([[0, 4], [0, 0]]), tm([[0, 4], [0, 0]])], "T": 10 if not big else 12})
        return [(fam, 5 if not big else 6)]
    if name == "slotblock":
        fam = []
        for cap in (False, True):
            for q2 in (0, 1):
                fam.append({"N": 2, "K": 1,
                            "nodes": [{"kind": "slot", "c": 0, "slot": {"slots": [2, 3], "sizes": [2, 1], "cap": cap, "pre": 0, "off": 0}},
                                      {"c": 1, "qcap": q2}],
                            "arrS": [[[1, 2]], [[]]], "svcS": [[[1, 2]], [[3, 5]]],
                            "route": [tm([[0, 4], [0, 0]])], "T": 8 if not big else 11})
        return [(fam, 4 if not big else 5)]
    if name == "slotren":
        fam = []
        for cap, pre in [(False, 0), (True, 0), (True, 1), (True, 2)]:
            fam.append({"N": 1, "K": 1, "nodes": [{"kind": "slot", "c": 0,
                        "slot": {"slots": [2, 3], "sizes": [2, 1], "cap": cap, "pre": pre, "off": 0}}],
                        "arrS": [[[1, 2]]], "svcS": [[[2, 4]]], "patS": [[[1, 3]]], "route": [tm([[0]])],
                        "T": 8 if not big else 10})
        return [(fam, 4 if not big else 5)]
    if name == "ccw":
        fam = []
        for prio, pp in [([0, 0], 0), ([1, 0], 0), ([1, 0], 1), ([1, 0], 3)]:
            fam.append({"N": 1, "K": 2, "prio": prio, "nodes": [{"c": 1, "pp": pp}],
                        "arrS": [[[1, 2], [2]]], "svcS": [[[2, 3], [1]]], "cct": [[[], [1, 2]], [[], []]],
                        "route": [tm([[0]]), tm([[0]])], "T": 9 if not big else 11})
        return [(fam, 5 if not big else 6)]
    if name == "ppccw":
        fam = []
        for pp in [1, 2, 3]:
            fam.append({"N": 1, "K": 3, "prio": [0, 1, 1], "nodes": [{"c": 1, "pp": pp}],
                        "arrS": [[[3, 4], [1], []]], "svcS": [[[1, 2], [4, 5], [3]]],
                        "cct": [[[], [], []], [[], [], [1, 2]], [[], [2], []]],
                        "route": [tm([[0]]), tm([[0]]), tm([[0]])], "T": 12 if not big else 14})
        return [(fam, 6 if not big else 7)]
    if name == "ps":
        fam = []
        for cap, R in [(1, 1), (2, 1), (INF, 1), (2, 2), (3, 2)]:
            fam.append({"N": 1, "K": 1, "nodes": [{"kind": "ps", "c": cap, "psR": R}],
                        "arrS": [[[6, 12]]], "svcS": [[[12, 24]]], "route": [tm([[0]])], "T": 84 if not big else 108})
        return [(fam, 5 if not big else 6)]
    if name == "psprio":
        fam = []
        for cap, prio in [(1, [1, 0]), (2, [1, 0]), (2, [0, 1]), (2, [0, 0])]:
            fam.append({"N": 1, "K": 2, "prio": prio, "nodes": [{"kind": "ps", "c": cap, "psR": 1}],
                        "arrS": [[[6, 12], [6, 12]]], "svcS": [[[12, 24], [12, 24]]], "route": [tm([[0]]), tm([[0]])],
                        "T": 84 if not big else 108})
        return [(fam, 6 if not big else 7)]
    if name == "jockey":
        fam = []
        for pp in [0, 1]:
            routers = [{"t": "leave", "jock": 2}, {"t": "leave"}]
            fam.append({"N": 2, "K": 2, "prio": [0, 1], "nodes": [{"c": 1, "pp": pp}, {"c": 1, "qcap": INF}],
                        "arrS": [[[2], [1]], [[], []]], "svcS": [[[2, 3], [3]], [[2], [1, 2]]],
                        "patS": [[[1, 2], [2]], [[], [1]]],
                        "route": [{"kind": "nr", "routers": copy.deepcopy(routers)} for _ in range(2)],
                        "T": 12 if not big else 14})
        return [(fam, 6 if not big else 7)]
    if name == "ppsched":
        fam = []
        for pre, pp in [(0, 1), (1, 1), (2, 3), (3, 2)]:
            fam.append({"N": 1, "K": 2, "prio": [0, 1],
                        "nodes": [{"kind": "sched", "c": 0, "pp": pp, "sched": {"nums": [1, 0, 1], "ends": [3, 5, 8], "pre": pre, "off": 0}}],
                        "arrS": [[[2, 3], [1]]], "svcS": [[[2], [3, 4]]], "route": [tm([[0]]), tm([[0]])],
                        "T": 13 if not big else 16})
        return [(fam, 7 if not big else 8)]
    if name == "renegesched":
        fam = []
        for pre in [0, 1, 3]:
            fam.append({"N": 1, "K": 1, "nodes": [{"kind": "sched", "c": 0, "sched": {"nums": [1, 0], "ends": [3, 6], "pre": pre, "off": 0}}],
                        "arrS": [[[1, 2]]], "svcS": [[[2, 4]]], "patS": [[[1, 3]]], "route": [tm([[0]])],
                        "T": 9 if not big else 12})
        return [(fam, 4 if not big else 5)]
    if name == "slotpre":
        fam = []
        for pre in [1, 2, 3]:
            fam.append({"N": 1, "K": 1, "nodes": [{"kind": "slot", "c": 0,
                        "slot": {"slots": [2, 3, 5], "sizes": [3, 1, 2], "cap": True, "pre": pre, "off": 0}}],
                        "arrS": [[[1]]], "batchS": [[[1, 2]]], "svcS": [[[4, 6]]], "route": [tm([[0]])],
                        "T": 11 if not big else 14})
        return [(fam, 5 if not big else 6)]
    if name == "jsqsched":
        fam = []
        for kind, tie in [("jsq", "order"), ("lb", "random")]:
            routers = [{"t": kind, "dests": [2, 3], "tie": tie}, {"t": "leave"}, {"t": "leave"}]
            fam.append({"N": 3, "K": 1, "nodes": [{"c": INF}, {"kind": "sched", "c": 0, "sched": {"nums": [2, 0, 1], "ends": [3, 5, 8], "pre": 0, "off": 0}},
                                                   {"c": 1}],
                        "arrS": [[[1, 2]], [[]], [[]]], "svcS": [[[0]], [[2, 4]], [[3]]],
                        "route": [{"kind": "nr", "routers": routers}], "T": 8 if not big else 10})
        return [(fam, 4 if not big else 5)]
    if name == "infblock":
        fam = []
        fam.append({"N": 2, "K": 1, "nodes": [{"c": INF}, {"c": 1, "qcap": 0}], "arrS": [[[1, 2]], [[]]], "batchS": [[[1, 2]], [[]]],
                    "svcS": [[[2]], [[2, 3]]], "route": [tm([[0, 4], [1, 0]])], "T": 7 if not big else 9})
        fam.append({"N": 2, "K": 1, "nodes": [{"kind": "slot", "c": 0, "slot": {"slots": [2], "sizes": [2], "cap": False, "pre": 0, "off": 0}},
                                              {"c": 1, "qcap": 0}],
                    "arrS": [[[1]], [[]]], "batchS": [[[1, 2]], [[]]], "svcS": [[[1]], [[2, 3]]], "route": [tm([[0, 4], [0, 0]])],
                    "T": 8 if not big else 10})
        return [(fam, 5 if not big else 6)]
    if name == "pause":
        fam = []
        for c, splits in [(1, [2]), (2, [1, 3]), (1, [0, 2, 4])]:
            fam.append({"N": 1, "K": 1, "nodes": [{"c": c, "qcap": 1}], "arrS": [[[1, 2]]], "svcS": [[[1, 3]]],
                        "route": [tm([[1]])], "T": 6 if not big else 8, "splits": splits})
        fam.append({"N": 2, "K": 1, "nodes": [{"c": 1, "qcap": 0}, {"c": 1, "qcap": 0}], "arrS": [[[1, 2]], [[]]],
                    "svcS": [[[1, 2]], [[2]]], "route": [tm([[0, 4], [0, 0]])], "T": 6 if not big else 8, "splits": [2, 4]})
        fam.append({"N": 1, "K": 1, "nodes": [{"kind": "sched", "c": 0, "sched": {"nums": [1, 2], "ends": [2, 5], "pre": 0, "off": 0}}],
                    "arrS": [[[1, 2]]], "svcS": [[[2, 3]]], "route": [tm([[0]])], "T": 8 if not big else 10, "splits": [3, 5]})
        return [(fam, 4 if not big else 5)]
    if name == "exact":
        out = []
        for base in ("tandem", "sched", "renege"):
            for scs, maxc in mc_instances(base, tier):
                scs = [dict(copy.deepcopy(x), exact=14, dec=1) for x in scs[:4]]
                out.append((scs, maxc))
        return out
    if name == "dead":
        fams = []
        fam = []
        for c, q in [(1, 0), (2, 0), (1, 1)]:
            fam.append({"N": 1, "K": 1, "nodes": [{"c": c, "qcap": q}], "arrS": [[[1, 2]]], "svcS": [[[1, 2]]],
                        "route": [tm([[2]])], "stop": "deadlock", "detector": "digraph", "tracker": "naive",
                        "T": 7 if not big else 9})
        for P in ([[0, 4], [2, 0]], [[2, 2], [4, 0]]):
            for c1, c2 in [(1, 1), (2, 1)]:
                fam.append({"N": 2, "K": 1, "nodes": [{"c": c1, "qcap": 0}, {"c": c2, "qcap": 0}],
                            "arrS": [[[1, 2]], [[2]]], "svcS": [[[1, 2]], [[1]]],
                            "route": [tm(P)], "stop": "deadlock", "detector": "digraph", "tracker": "matrix",
                            "T": 6 if not big else 8})
        fam.append({"N": 3, "K": 1, "nodes": [{"c": 1, "qcap": 0}, {"c": 1, "qcap": 0}, {"c": 1, "qcap": 0}],
                    "arrS": [[[1]], [[1, 2]], [[2]]], "svcS": [[[1, 2]], [[1]], [[1]]],
                    "route": [tm([[0, 4, 0], [0, 0, 4], [4, 0, 0]])], "stop": "deadlock", "detector": "digraph",
                    "tracker": "node", "T": 5 if not big else 7})
        return [(fam, 5 if not big else 6)]
    if name == "trk":
        fam = []
        for t in ["system", "node", "subset", "grouped", "nodeclass", "naive", "matrix"]:
            fam.append({"N": 2, "K": 2, "prio": [0, 0], "tracker": t, "observed": [1], "groups": [[1], [0]],
                        "nodes": [{"c": 1, "qcap": 1, "ccm": [[2, 2], [0, 4]]}, {"c": 1, "qcap": 0, "ccm": [[4, 0], [0, 4]]}],
                        "arrS": [[[1, 2], []], [[], [2]]], "svcS": [[[1], [2]], [[1, 2], [2]]],
                        "route": [tm([[0, 4], [2, 0]]), tm([[0, 2], [2, 0]])], "T": 6 if not big else 8})
        return [(fam, 4 if not big else 5)]
    if name == "stopcount":
        fam = []
        for stop in ["Complete", "Finish", "Arrive", "Accept"]:
            fam.append({"N": 1, "K": 1, "nodes": [{"c": 1, "qcap": 1, "bk": [[0, 2]]}],
                        "arrS": [[[1, 2]]], "batchS": [[[1, 2]]], "svcS": [[[1, 2]]],
                        "route": [tm([[0]])], "stop": stop, "maxc": 3 if not big else 4, "T": INF})
        return [(fam, 8 if not big else 10)]
    raise KeyError(name)
