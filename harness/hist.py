"""Process histories for C15 (spec/CiwHist.tla -> code).

TLC enumerates every history of <= MaxLen operations (build a Network from parameter set p, ciw.seed(z) and build
a Simulation from Network n, advance Simulation s by one simulate_until_max_time call) and checks NonInterference on
the ownership model.  This module samples terminal histories from TLC's output, executes each one operation by
operation against the real library in a fresh interpreter, executes the *solo* run of every simulation that occurs
(fresh interpreter, same parameter set, seed and number of stages), and emits one pair per simulation for
CiwPair!PairFails: the outcome inside the history must be identical to the solo outcome."""
import copy
import json
import os
import random
import re
import shutil
import subprocess
import time
import traceback

from harness import pairs

BOUNDS = {"MaxNets": 2, "MaxSims": 3, "Stages": 2, "NParams": 2, "NSeeds": 2, "MaxLen": 9}


def write_cfg(path, dev="{}", swap="TRUE", view=True, export=False, bounds=BOUNDS):
    with open(path, "w") as f:
        f.write("SPECIFICATION Spec\nCHECK_DEADLOCK FALSE\nCONSTANTS\n")
        for k, v in bounds.items():
            f.write(" %s = %d\n" % (k, v))
        f.write(" Dev = %s\n SwapRng = %s\n" % (dev, swap))
        f.write("INVARIANT NonInterference\nINVARIANT SameInputsSameView\n")
        if view:
            f.write("VIEW View\n")
        if export:
            f.write("INVARIANT Export\n")


STATES = re.compile(r"(\d+) states generated, (\d+) distinct states found")
HIST = re.compile(r'^<<"HIST", "(.*)">>$')


def tlc(work, cfg, timeout=900):
    from harness.tlc import java_cmd
    meta = os.path.join(work, "meta_" + cfg)
    args = ["-workers", "16", "-metadir", meta, "-noGenerateSpecTE", "-config", cfg, "CiwHist.tla"]
    p = subprocess.run(java_cmd("tlc2.TLC", args), cwd=work, capture_output=True, text=True, timeout=timeout)
    shutil.rmtree(meta, ignore_errors=True)
    out = p.stdout + p.stderr
    m = None
    for m in STATES.finditer(out):
        pass
    return {"rc": p.returncode, "out": out, "violated": "is violated" in out,
            "states": int(m.group(1)) if m else 0, "distinct": int(m.group(2)) if m else 0}


BIG_BOUNDS = {"MaxNets": 3, "MaxSims": 4, "Stages": 3, "NParams": 2, "NSeeds": 2, "MaxLen": 13}


def model_check(work, tier="quick"):
    """returns (report dict, list of terminal histories); raises RuntimeError if the model itself misbehaves"""
    from harness.tlc import copy_spec
    copy_spec(work)
    rep = {}
    if tier == "thorough":
        # NonInterference on a larger instance (3 Networks, 4 Simulations, 3 stages, 13 operations: 4.8M states)
        write_cfg(os.path.join(work, "big.cfg"), bounds=BIG_BOUNDS)
        r = tlc(work, "big.cfg", timeout=3000)
        if r["rc"] != 0 or r["violated"]:
            raise RuntimeError("CiwHist: NonInterference fails on the larger instance\n" + r["out"][-2000:])
        rep["ideal_large"] = {"distinct": r["distinct"], "states": r["states"], "bounds": BIG_BOUNDS}
    write_cfg(os.path.join(work, "ideal.cfg"))
    r = tlc(work, "ideal.cfg")
    if r["rc"] != 0 or r["violated"]:
        raise RuntimeError("CiwHist: NonInterference fails on the ideal design\n" + r["out"][-2000:])
    rep["ideal"] = {"distinct": r["distinct"], "states": r["states"]}
    # sensitivity: each deviation must be refuted (otherwise the model cannot see sharing at all)
    for dev in ("arr", "svc", "batch", "renege", "cct", "router", "sched"):
        write_cfg(os.path.join(work, "dev.cfg"), dev='{"%s"}' % dev)
        r = tlc(work, "dev.cfg")
        if not r["violated"]:
            raise RuntimeError("CiwHist: sharing of %s objects is not refuted by the model" % dev)
    write_cfg(os.path.join(work, "noswap.cfg"), swap="FALSE")
    if not tlc(work, "noswap.cfg")["violated"]:
        raise RuntimeError("CiwHist: an unswapped global stream is not refuted by the model")
    rep["deviations_refuted"] = 8
    write_cfg(os.path.join(work, "export.cfg"), view=False, export=True)
    r = tlc(work, "export.cfg")
    if r["rc"] != 0:
        raise RuntimeError("CiwHist export failed\n" + r["out"][-2000:])
    hs = []
    for line in r["out"].splitlines():
        m = HIST.match(line.strip())
        if m:
            hs.append(json.loads(m.group(1).replace('\\"', '"')))
    rep["histories"] = len(hs)
    rep["export_states"] = r["distinct"]
    return rep, hs


def interesting(h):
    """at least two simulations and at least one step of one simulation after another simulation was built or stepped"""
    sims = [o for o in h if o["op"] == "sim"]
    if len(sims) < 2:
        return False
    last, switches = None, 0
    for o in h:
        if o["op"] == "sim":
            cur = ("s", sum(1 for x in h[:h.index(o) + 1] if x["op"] == "sim"))
        elif o["op"] == "step":
            cur = ("s", o["a"])
        else:
            continue
        if last is not None and cur != last:
            switches += 1
        last = cur
    return switches >= 2


def sample(hs, n, seed):
    rng = random.Random("hist-sample/%d" % seed)
    good = [h for h in hs if interesting(h)]
    good.sort(key=lambda h: json.dumps(h))
    return rng.sample(good, min(n, len(good)))


# ------------------------------------------------------------------ execution against the library

def params_for(seed, p):
    return pairs.gen_cont(random.Random("hist/%d/%d" % (seed, p)), stateful=True, rich=True)


def _save(ciw):
    return (random.getstate(), copy.deepcopy(ciw.rng.bit_generator.state))


def _restore(ciw, st):
    random.setstate(st[0])
    ciw.rng.bit_generator.state = copy.deepcopy(st[1])


def horizon(sc, j, stages):
    return sc["T"] * j / float(stages)


def exec_history(job):
    """job = (hid, seed, history, stages): runs the history in this (fresh) interpreter"""
    hid, seed, h, stages = job
    try:
        ciw = pairs._ciw()
        nets, sims = [], []
        for o in h:
            if o["op"] == "net":
                sc = params_for(seed, o["a"])
                nets.append((o["a"], sc, pairs.build_cont(sc)))
            elif o["op"] == "sim":
                p, sc, N = nets[o["a"] - 1]
                z = seed * 1000 + o["b"]
                ciw.seed(z)
                trk = pairs.mk_tracker(ciw, sc["tracker"])
                Q = ciw.Simulation(N, tracker=trk() if trk else None)
                sims.append({"p": p, "z": z, "sc": sc, "Q": Q, "stage": 0, "saved": _save(ciw)})
            else:
                s = sims[o["a"] - 1]
                _restore(ciw, s["saved"])
                s["stage"] += 1
                s["Q"].simulate_until_max_time(horizon(s["sc"], s["stage"], stages))
                s["saved"] = _save(ciw)
        return {"hid": hid, "sims": [{"p": s["p"], "z": s["z"], "stage": s["stage"], "out": pairs.outcome(s["Q"])}
                                     for s in sims]}, None
    except Exception:
        return None, "history %s: %s" % (json.dumps(job[2]), traceback.format_exc())


def exec_solo(job):
    """job = (seed, p, z, nstages, stages): the same simulation alone in a fresh interpreter"""
    seed, p, z, nst, stages = job
    try:
        ciw = pairs._ciw()
        sc = params_for(seed, p)
        N = pairs.build_cont(sc)
        ciw.seed(z)
        trk = pairs.mk_tracker(ciw, sc["tracker"])
        Q = ciw.Simulation(N, tracker=trk() if trk else None)
        for j in range(1, nst + 1):
            Q.simulate_until_max_time(horizon(sc, j, stages))
        return {"key": [p, z, nst], "out": pairs.outcome(Q)}, None
    except Exception:
        return None, "solo %r: %s" % (job, traceback.format_exc())


def make_pairs(pool, hs, seed, stages, pid0=0):
    """executes the sampled histories and their solo references; returns (pair docs, errors)"""
    jobs = [(k, seed * 1000 + k, h, stages) for k, h in enumerate(hs)]
    res = pool.map(exec_history, jobs, chunksize=1)
    errs = [e for _, e in res if e]
    runs = [(j, r) for j, (r, e) in zip(jobs, res) if not e]
    need = {}
    for (k, sd, h, _), r in runs:
        for s in r["sims"]:
            need[(sd, s["p"], s["z"], s["stage"])] = None
    sj = [(sd, p, z, nst, stages) for (sd, p, z, nst) in sorted(need)]
    sres = pool.map(exec_solo, sj, chunksize=1)
    for j, (r, e) in zip(sj, sres):
        if e:
            errs.append(e)
        else:
            need[j[:4]] = r["out"]
    docs = []
    for (k, sd, h, _), r in runs:
        for si, s in enumerate(r["sims"]):
            ref = need.get((sd, s["p"], s["z"], s["stage"]))
            if ref is None:
                continue
            docs.append({"pid": pid0 + len(docs), "prop": "C15", "a": ref, "b": s["out"], "seed": sd,
                         "history": "tlc:" + "".join("N%d" % o["a"] if o["op"] == "net" else
                                                     "S%d.%d" % (o["a"], o["b"]) if o["op"] == "sim" else
                                                     "r%d" % o["a"] for o in h) + "#sim%d" % (si + 1),
                         "scenario": params_for(sd, s["p"])})
    return docs, errs
