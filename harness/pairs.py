"""Two-run machinery (C15, C16, C20): executes the real engine twice in the way the property
relates the two executions and writes *pairs* judged by spec/CiwPair.tla (string equality =
bit identity of the Python values)."""
import copy
import json
import math
import os
import random
import sys
import traceback


def _ciw():
    import ciw
    return ciw


# ------------------------------------------------------------------ continuous scenarios

def gen_cont(rng, stateful=False, rich=False):
    """a network with continuous (tie-free) built-in distributions; `stateful` adds Sequential / Cycle objects;
    `rich` (process histories, C15) adds composite distributions with nested stateful parts, phase-type and
    numpy-stream distributions, user-defined stateful distributions and process-based routing"""
    N = rng.choice([1, 2, 2, 3])
    K = rng.choice([1, 1, 2])

    def cdist(scale=1.0, allow_none=False):
        if allow_none and rng.random() < 0.3:
            return None
        t = rng.choice(["exp", "exp", "uniform", "gamma", "lognormal", "triangular", "weibull"])
        if t == "exp":
            return ["exp", round(rng.uniform(0.3, 2.0) / scale, 3)]
        if t == "uniform":
            a = round(rng.uniform(0.1, 1.0) * scale, 3)
            return ["uniform", a, round(a + rng.uniform(0.1, 2.0) * scale, 3)]
        if t == "gamma":
            return ["gamma", round(rng.uniform(0.5, 3.0), 3), round(rng.uniform(0.2, 1.0) * scale, 3)]
        if t == "lognormal":
            return ["lognormal", round(rng.uniform(-0.5, 0.5), 3), round(rng.uniform(0.2, 0.8), 3)]
        if t == "triangular":
            a = round(rng.uniform(0.1, 0.5) * scale, 3)
            return ["triangular", a, round(a + 0.5 * scale, 3), round(a + 1.5 * scale, 3)]
        return ["weibull", round(rng.uniform(0.5, 2.0) * scale, 3), round(rng.uniform(0.8, 3.0), 3)]

    sc = {"N": N, "K": K, "arr": [], "svc": [], "servers": [], "qcap": [], "route": [], "prio": None,
          "renege": None, "batch": None, "ccm": None, "tracker": rng.choice(["node", "naive", "system", "nodeclass", None]),
          "T": round(rng.uniform(15, 60), 3), "baulk": None}
    for k in range(K):
        sc["arr"].append([cdist(1.5, allow_none=(n > 0)) for n in range(N)])
        sc["svc"].append([cdist(1.0) for n in range(N)])
        P = []
        for n in range(N):
            row = [0.0] * N
            left = 1.0
            for d in rng.sample(range(N), N):
                if rng.random() < 0.5:
                    v = round(rng.uniform(0, left) * 0.8, 2)
                    row[d] = v
                    left -= v
            P.append(row)
        sc["route"].append(P)
    for n in range(N):
        r = rng.random()
        if r < 0.6:
            sc["servers"].append(rng.choice([1, 1, 2, 3]))
        elif r < 0.75:
            sc["servers"].append("inf")
        else:
            m = rng.randint(2, 3)
            ends, t = [], 0.0
            for _ in range(m):
                t = round(t + rng.uniform(3, 12), 2)
                ends.append(t)
            sc["servers"].append({"nums": [rng.choice([1, 2, 3]) for _ in range(m)], "ends": ends,
                                  "pre": rng.choice([False, False, "resume", "restart", "resample"]),
                                  # distinct offsets: two timetables starting at the same instant are coinciding
                                  # events (outside C16's scope: a re-entry then draws the tie-break once more)
                                  "off": round(rng.choice([0.0, 0.0, 1.5]) + 0.173 * n, 3)})
        sc["qcap"].append(rng.choice(["inf", "inf", 0, 1, 3]) if sc["servers"][-1] != "inf" else "inf")
    # pre-emptive schedules and blocking together is finding F4: keep downstream uncapacitated then
    if any(isinstance(s, dict) and s["pre"] for s in sc["servers"]):
        sc["qcap"] = ["inf"] * N
    if K == 2 and rng.random() < 0.6:
        pre = rng.choice([False, False, "resume", "restart", "resample"])
        sc["prio"] = {"map": [0, 1], "pre": [pre if isinstance(sc["servers"][n], int) else False for n in range(N)]}
        if pre:
            sc["qcap"] = ["inf"] * N
    if rng.random() < 0.3 and not (sc["prio"] and any(sc["prio"]["pre"])):
        sc["renege"] = [[(cdist(3.0) if (isinstance(sc["servers"][n], int) and rng.random() < 0.7) else None)
                         for n in range(N)] for k in range(K)]
    if rng.random() < 0.25:
        sc["batch"] = [[["pmf", [1, 2, 3], [0.5, 0.3, 0.2]] if sc["arr"][k][n] else None for n in range(N)] for k in range(K)]
    if K == 2 and rng.random() < 0.3:
        sc["ccm"] = [[[0.7, 0.3], [0.2, 0.8]] for n in range(N)]
    if rng.random() < 0.2:
        sc["baulk"] = True
    if rng.random() < 0.25 and any(isinstance(x, int) and x >= 2 for x in sc["servers"]):
        # server priority function: "busy" ranks free servers by busy time, "util" by busy time / total time
        sc["spf"] = rng.choice(["busy", "busy", "util"])
    if stateful:
        # objects with internal state: ownership matters (C15)
        k = rng.randrange(K)
        n0 = 0
        sc["arr"][k][n0] = ["seq", [round(rng.uniform(0.2, 2.0), 3) for _ in range(rng.randint(2, 5))]]
        if rng.random() < 0.5:
            sc["svc"][k][n0] = ["seq", [round(rng.uniform(0.2, 2.0), 3) for _ in range(rng.randint(2, 5))]]
        if rng.random() < 0.5 and isinstance(sc["servers"][0], int):
            sc["renege"] = sc["renege"] or [[None] * N for _ in range(K)]
            sc["renege"][k][0] = ["seq", [round(rng.uniform(0.5, 4.0), 3) for _ in range(3)]]
        if rng.random() < 0.5 and N >= 2:
            sc["cycle"] = [[rng.choice(list(range(1, N + 1)) + [-1]) for _ in range(rng.randint(2, 4))] for n in range(N)]
            for n in range(N):
                if -1 not in sc["cycle"][n]:
                    sc["cycle"][n].append(-1)
    if rich:
        def seqd(lo=0.2, hi=2.0):
            return ["seq", [round(rng.uniform(lo, hi), 3) for _ in range(rng.randint(2, 4))]]

        def nested(scale=1.0):
            t = rng.choice(["sum", "mix", "custom", "erlang", "hyperexp", "sum"])
            if t == "sum":
                return ["sum", seqd(0.1, 1.0), cdist(scale * 2.0)]
            if t == "mix":
                return ["mix", [seqd(), cdist(scale)], [0.5, 0.5]]
            if t == "custom":
                return ["custom", [round(rng.uniform(0.2, 2.0), 3) for _ in range(3)], cdist(scale * 3.0)]
            if t == "erlang":
                return ["erlang", round(rng.uniform(1.0, 4.0), 3), rng.randint(2, 3)]
            return ["hyperexp", [round(rng.uniform(0.5, 3.0), 3), round(rng.uniform(0.5, 3.0), 3)], [0.4, 0.6]]
        for k in range(K):
            for n in range(N):
                if rng.random() < 0.5:
                    sc["svc"][k][n] = nested()
                if sc["arr"][k][n] is not None and rng.random() < 0.3:
                    sc["arr"][k][n] = nested(1.5)
                if sc["renege"] and sc["renege"][k][n] is not None and rng.random() < 0.5:
                    sc["renege"][k][n] = nested(3.0)
        if rng.random() < 0.3:
            sc["batch"] = [[rng.choice([["poisson1", 0.8], ["geometric", 0.6], ["seq", [1, 2, 1, 3]]]) if sc["arr"][k][n] else None
                            for n in range(N)] for k in range(K)]
        if rng.random() < 0.4:
            sc.pop("cycle", None)
            # process-based routing: the route depends on the customer's id (a pure function of the customer)
            sc["pb"] = [[rng.choice(list(range(1, N + 1))) for _ in range(rng.randint(0, 3))] for _ in range(3)]
        if K == 2 and rng.random() < 0.3 and not sc.get("ccm"):
            sc["cct"] = [[None, seqd(1.0, 5.0)], [cdist(4.0), None]]
        if N >= 2 and not sc.get("pb") and rng.random() < 0.35:
            sc.pop("cycle", None)
            # flexible process-based routing with join-shortest-queue / load-balancing choices
            sc["fpb"] = {"routes": [[sorted(rng.sample(range(1, N + 1), rng.randint(1, N))) for _ in range(rng.randint(1, 3))]
                                    for _ in range(2)],
                         "rule": rng.choice(["any", "all"]), "choice": rng.choice(["jsq", "lb", "random"])}
    return sc




def mk_dist(ciw, d):
    if d is None:
        return None
    t = d[0]
    D = ciw.dists
    if t == "exp":
        return D.Exponential(d[1])
    if t == "uniform":
        return D.Uniform(d[1], d[2])
    if t == "gamma":
        return D.Gamma(d[1], d[2])
    if t == "lognormal":
        return D.Lognormal(d[1], d[2])
    if t == "triangular":
        return D.Triangular(d[1], d[2], d[3])
    if t == "weibull":
        return D.Weibull(d[1], d[2])
    if t == "seq":
        return D.Sequential(list(d[1]))
    if t == "det":
        return D.Deterministic(d[1])
    if t == "pmf":
        return D.Pmf(list(d[1]), list(d[2]))
    if t == "sum":
        return mk_dist(ciw, d[1]) + mk_dist(ciw, d[2])
    if t == "mix":
        return D.MixtureDistribution([mk_dist(ciw, x) for x in d[1]], list(d[2]))
    if t == "erlang":
        return D.Erlang(d[1], d[2])
    if t == "hyperexp":
        return D.HyperExponential(list(d[1]), list(d[2]))
    if t == "poisson1":
        class P1(D.Poisson):
            def sample(self, t=None, ind=None):
                return 1 + super().sample(t, ind)
        return P1(d[1])
    if t == "geometric":
        return D.Geometric(d[1])
    if t == "custom":
        inner = mk_dist(ciw, d[2])

        class Counting(D.Distribution):
            def __init__(self, vals, inner):
                self.vals, self.inner, self.k = list(vals), inner, 0

            def sample(self, t=None, ind=None):
                self.k += 1
                if self.k % 3 == 0:
                    return self.vals[(self.k // 3) % len(self.vals)]
                return self.inner.sample(t, ind)
        return Counting(d[1], inner)
    raise ValueError(t)


def build_cont(sc):
    ciw = _ciw()
    N, K = sc["N"], sc["K"]
    names = ["C%d" % (k + 1) for k in range(K)]
    kw = {"arrival_distributions": {names[k]: [mk_dist(ciw, d) for d in sc["arr"][k]] for k in range(K)},
          "service_distributions": {names[k]: [mk_dist(ciw, d) for d in sc["svc"][k]] for k in range(K)}}
    servers = []
    for s in sc["servers"]:
        if s == "inf":
            servers.append(float("inf"))
        elif isinstance(s, dict):
            servers.append(ciw.Schedule(numbers_of_servers=list(s["nums"]), shift_end_dates=list(s["ends"]),
                                        preemption=s["pre"], offset=float(s["off"])))
        else:
            servers.append(s)
    kw["number_of_servers"] = servers
    kw["queue_capacities"] = [float("inf") if q == "inf" else q for q in sc["qcap"]]
    if sc.get("fpb"):
        froutes = [[list(x) for x in r] for r in sc["fpb"]["routes"]]

        def froute_fn(ind, simulation):
            return [list(x) for x in froutes[ind.id_number % len(froutes)]]
        kw["routing"] = {names[k]: ciw.routing.FlexibleProcessBased(froute_fn, rule=sc["fpb"]["rule"], choice=sc["fpb"]["choice"])
                         for k in range(K)}
    elif sc.get("pb"):
        routes = [list(r) for r in sc["pb"]]

        def route_fn(ind, simulation):
            return list(routes[ind.id_number % len(routes)])
        kw["routing"] = {names[k]: ciw.routing.ProcessBased(route_fn) for k in range(K)}
    elif sc.get("cycle"):
        kw["routing"] = {names[k]: ciw.routing.NetworkRouting(routers=[ciw.routing.Cycle(cycle=list(c)) for c in sc["cycle"]])
                         for k in range(K)}
    else:
        kw["routing"] = {names[k]: [list(r) for r in sc["route"][k]] for k in range(K)}
    if sc["prio"]:
        pm = {names[k]: sc["prio"]["map"][k] for k in range(K)}
        kw["priority_classes"] = (pm, list(sc["prio"]["pre"])) if any(sc["prio"]["pre"]) else pm
    if sc["renege"]:
        kw["reneging_time_distributions"] = {names[k]: [mk_dist(ciw, d) for d in sc["renege"][k]] for k in range(K)}
    if sc["batch"]:
        kw["batching_distributions"] = {names[k]: [(mk_dist(ciw, d) if d else ciw.dists.Deterministic(1)) for d in sc["batch"][k]]
                                        for k in range(K)}
    if sc["ccm"]:
        kw["class_change_matrices"] = [{names[a]: {names[b]: m[a][b] for b in range(K)} for a in range(K)} for m in sc["ccm"]]
    if sc.get("cct"):
        kw["class_change_time_distributions"] = {names[a]: {names[b]: mk_dist(ciw, sc["cct"][a][b]) for b in range(K)}
                                                 for a in range(K)}
    if sc.get("spf"):
        def by_busy(srv, ind):
            return srv.busy_time

        def by_util(srv, ind):
            return srv.busy_time / srv.total_time if srv.total_time else 0.0
        f = by_busy if sc["spf"] == "busy" else by_util
        kw["server_priority_functions"] = [(f if isinstance(x, int) else None) for x in sc["servers"]]
    if sc.get("baulk"):
        def bf(n, Q=None, next_ind=None, next_node=None):
            return min(1.0, n / 6.0)
        kw["baulking_functions"] = {names[k]: [bf for _ in range(N)] for k in range(K)}
    return ciw.create_network(**kw)


def mk_tracker(ciw, name):
    T = ciw.trackers
    return {None: None, "node": T.NodePopulation, "naive": T.NaiveBlocking, "system": T.SystemPopulation,
            "nodeclass": T.NodeClassMatrix}[name]


def outcome(Q):
    """observable outcome as strings"""
    inds = []
    seen = set()
    for nd in Q.nodes[1:]:
        for i in nd.all_individuals:
            if id(i) not in seen:
                seen.add(id(i))
                inds.append(i)
    inds.sort(key=lambda i: i.id_number)
    recs = []
    for i in inds:
        for r in i.data_records:
            recs.append([repr(v) for v in r])
    hist = [[repr(t), repr(s)] for t, s in Q.statetracker.history]
    busy, util = [], []
    for nd in Q.transitive_nodes:
        if hasattr(nd, "servers") and not (isinstance(nd.c, float) and math.isinf(nd.c)):
            busy.append([[repr(s.busy_time), repr(s.total_time)] for s in nd.servers]
                        + [["all", repr(sum(nd.all_servers_busy)), repr(sum(nd.all_servers_total))]])
        else:
            busy.append([])
        util.append(repr(getattr(nd, "server_utilisation", None)))
    return {"recs": recs, "clock": repr(Q.current_time), "hist": hist, "busy": busy, "util": util,
            "alldec": True, "order": [], "nums": []}


def sim(sc, N=None, horizons=None):
    ciw = _ciw()
    N = N if N is not None else build_cont(sc)
    trk = mk_tracker(ciw, sc["tracker"])
    Q = ciw.Simulation(N, tracker=trk() if trk else None)
    for T in (horizons or [sc["T"]]):
        Q.simulate_until_max_time(T)
    return Q


# ------------------------------------------------------------------ C16

def pair_c16(job):
    pid, seed = job
    try:
        ciw = _ciw()
        rng = random.Random("c16/%d" % seed)
        sc = gen_cont(rng)
        T = sc["T"]
        k = rng.randint(1, 4)
        splits = sorted(round(rng.uniform(0.05, 0.95) * T, 3) for _ in range(k))
        if rng.random() < 0.5:
            splits.append(round(T * 0.9999, 6))     # a last window that (almost surely) contains no event
        if rng.random() < 0.3:
            splits.insert(0, 1e-9)                  # a first window before anything happens
        splits = sorted(set(splits)) + [T]
        ciw.seed(seed)
        a = outcome(sim(sc))
        ciw.seed(seed)
        b = outcome(sim(sc, horizons=splits))
        return {"pid": pid, "prop": "C16", "a": a, "b": b, "scenario": sc, "seed": seed, "splits": splits}, None
    except Exception:
        return None, traceback.format_exc()


# ------------------------------------------------------------------ C15

def pair_c15_run(args):
    """one side of a C15 pair, executed in a fresh interpreter: history shape h, then the observed run"""
    seed, h = args
    ciw = _ciw()
    rng = random.Random("c15/%d" % seed)
    sc = gen_cont(rng, stateful=True)
    other = gen_cont(random.Random("c15o/%d" % seed))
    T = sc["T"]
    if h == 0:        # fresh
        ciw.seed(seed)
        return outcome(sim(sc))
    if h == 1:        # an unrelated simulation ran before in this process
        ciw.seed(seed + 17)
        sim(other)
        ciw.seed(seed)
        return outcome(sim(sc))
    if h == 2:        # the same Network object was simulated before and is re-used
        N = build_cont(sc)
        ciw.seed(seed + 5)
        sim(sc, N=N, horizons=[T / 2.0])
        ciw.seed(seed)
        return outcome(sim(sc, N=N))
    if h == 3:        # another Simulation of the same Network exists and has been run part of the way
        N = build_cont(sc)
        ciw.seed(seed + 9)
        Q1 = ciw.Simulation(N)
        Q1.simulate_until_max_time(T / 3.0)
        ciw.seed(seed)
        trk = mk_tracker(ciw, sc["tracker"])
        Q2 = ciw.Simulation(N, tracker=trk() if trk else None)
        Q1.simulate_until_max_time(T / 2.0) if False else None
        Q2.simulate_until_max_time(T)
        return outcome(Q2)
    if h == 4:        # equal parameters built twice (two Network objects), first one simulated
        N1 = build_cont(sc)
        ciw.seed(seed + 3)
        sim(sc, N=N1)
        ciw.seed(seed)
        return outcome(sim(sc, N=build_cont(sc)))
    raise ValueError(h)


def pair_c15(job):
    """runs both sides in this (fresh, maxtasksperchild=1) worker... the reference side in a subprocess"""
    pid, seed, h = job
    try:
        import subprocess
        env = dict(os.environ)
        code = ("import sys, json; sys.path[:0] = %r; from harness.pairs import pair_c15_run; "
                "print(json.dumps(pair_c15_run((%d, 0))))" % ([os.environ.get("CIWVERIF_REPO", "/repo"),
                                                               os.path.dirname(os.path.dirname(os.path.abspath(__file__)))], seed))
        p = subprocess.run([sys.executable, "-c", code], capture_output=True, text=True, timeout=300, env=env)
        if p.returncode != 0:
            return None, "reference run failed: " + p.stderr[-1500:]
        a = json.loads(p.stdout.strip().splitlines()[-1])
        b = pair_c15_run((seed, h))
        return {"pid": pid, "prop": "C15", "a": a, "b": b, "seed": seed, "history": h}, None
    except Exception:
        return None, traceback.format_exc()


# ------------------------------------------------------------------ C20 (c): exact run vs float run

def nums_of(Q):
    """per record: [id, node, type] and the numeric fields in micro-units"""
    inds = []
    seen = set()
    for nd in Q.nodes[1:]:
        for i in nd.all_individuals:
            if id(i) not in seen:
                seen.add(id(i))
                inds.append(i)
    inds.sort(key=lambda i: i.id_number)
    order, nums, alldec = [], [], True
    from decimal import Decimal
    for i in inds:
        for r in i.data_records:
            order.append([int(r.id_number), int(r.node), str(r.record_type)])
            row = []
            for v in (r.arrival_date, r.waiting_time, r.service_start_date, r.service_time, r.service_end_date,
                      r.time_blocked, r.exit_date):
                if isinstance(v, Decimal):
                    row.append(-1 if v.is_nan() else int(round(float(v) * 10 ** 6)))
                elif isinstance(v, float):
                    if v != v:
                        row.append(-1)
                    else:
                        alldec = False
                        row.append(int(round(v * 10 ** 6)))
                else:
                    row.append(-1)
            nums.append(row)
    return order, nums, alldec


def pair_c20(job):
    pid, seed = job
    try:
        ciw = _ciw()
        rng = random.Random("c20/%d" % seed)
        sc = gen_cont(rng)
        # ordinary nodes; schedules only with dates that are exact in binary (open finding F10 otherwise)
        for s in sc["servers"]:
            if isinstance(s, dict):
                s["ends"] = [float(round(e * 2) / 2.0) + 0.5 * (j + 1) for j, e in enumerate(s["ends"])]
                s["ends"] = sorted(set(s["ends"]))
                s["nums"] = s["nums"][:len(s["ends"])]
                s["off"] = float(round(s["off"] * 2) / 2.0)
        sc["tracker"] = None
        sc["T"] = min(sc["T"], 40.0)
        k = rng.choice([14, 20, 28, 50])
        ciw.seed(seed)
        N = build_cont(sc)
        Qe = ciw.Simulation(N, exact=k)
        Qe.simulate_until_max_time(sc["T"])
        ciw.seed(seed)
        Qf = ciw.Simulation(build_cont(sc))
        Qf.simulate_until_max_time(sc["T"])
        oa, na, deca = nums_of(Qe)
        ob, nb, _ = nums_of(Qf)
        a = {"recs": [], "clock": "", "hist": [], "busy": [], "util": [], "alldec": bool(deca), "order": oa, "nums": na}
        b = {"recs": [], "clock": "", "hist": [], "busy": [], "util": [], "alldec": True, "order": ob, "nums": nb}
        return {"pid": pid, "prop": "C20", "a": a, "b": b, "scenario": sc, "seed": seed, "exact": k}, None
    except Exception:
        return None, traceback.format_exc()


# ------------------------------------------------------------------ C19 on floating-point inputs

def _empties(recs, node):
    """instants (micro-units) at which `node` becomes empty, from its service records.  Dates are quantised first
    and an arrival at the quantised instant of a departure counts as earlier, so that rounding noise of a few ulps
    cannot create or remove an emptying instant"""
    ev = []
    for r in recs:
        if r.node == node and r.record_type == "service":
            ev.append((int(round(float(r.arrival_date) * 10 ** 6)), 0))
            ev.append((int(round(float(r.exit_date) * 10 ** 6)), 1))
    ev.sort()
    pop, out = 0, []
    for j, (t, d) in enumerate(ev):
        pop += 1 if d == 0 else -1
        if pop == 0 and not (j + 1 < len(ev) and ev[j + 1][0] - t <= 2):
            out.append(t)
    return out


def pair_c19(job):
    """an unlimited processor-sharing node (threshold 1) and a FIFO single-server node fed with the same arrival
    instants and the same requirements, on decimal (not binary-exact) values with ties and batches: both empty at
    the same instants and neither keeps a customer once all work is done"""
    pid, seed = job
    try:
        ciw = _ciw()
        rng = random.Random("c19/%d" % seed)
        m = rng.randint(4, 40)
        grid = rng.choice([0.1, 0.1, 0.01, 0.7, 1.3])
        ia, req = [], []
        for _ in range(m):
            ia.append(0.0 if rng.random() < 0.3 else round(rng.randint(1, 30) * grid, 6))
            req.append(round(rng.randint(1, 25) * grid, 6) if rng.random() < 0.7 else round(rng.uniform(0.05, 3.0), 3))
        if rng.random() < 0.4:
            req = [req[0]] * m                      # identical requirements: exact ties inside busy periods
        if ia[0] == 0.0:
            ia[0] = grid
        T = sum(ia) + sum(req) + 50.0
        N = ciw.create_network(
            arrival_distributions=[ciw.dists.Sequential(ia + [10.0 ** 9]), ciw.dists.Sequential(ia + [10.0 ** 9])],
            service_distributions=[ciw.dists.Sequential(list(req)), ciw.dists.Sequential(list(req))],
            number_of_servers=[float("inf"), 1],
            routing=[[0.0, 0.0], [0.0, 0.0]])
        ciw.seed(seed)
        Q = ciw.Simulation(N, node_class=[ciw.PSNode, ciw.Node])
        Q.simulate_until_max_time(T)
        recs = Q.get_all_records()
        left = [len(Q.nodes[1].all_individuals), len(Q.nodes[2].all_individuals)]
        a = {"recs": [], "clock": "", "hist": [], "busy": [], "util": [], "alldec": True, "order": [],
             "nums": [_empties(recs, 1)], "left": left[0]}
        b = {"recs": [], "clock": "", "hist": [], "busy": [], "util": [], "alldec": True, "order": [],
             "nums": [_empties(recs, 2)], "left": left[1]}
        return {"pid": pid, "prop": "C19", "a": a, "b": b, "seed": seed,
                "scenario": {"ia": ia, "req": req, "T": T}}, None
    except Exception:
        return None, traceback.format_exc()
