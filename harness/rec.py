"""Recording layer: observes a real ciw.Simulation through public extension points only.

Nothing here changes what the engine computes: every wrapper delegates to the real
(bound) method of the object built from /repo's working tree and records arguments,
local context and results.  The projection (`project`) reads the live objects and
returns the abstract state of DESIGN.md section 2.1 / appendix B in the
type-homogeneous integer encoding shared with spec/Ciw.tla.
"""
import math
import sys
from decimal import Decimal
from fractions import Fraction

NONE = -9
INF = 10 ** 9
EXIT = -1

MARK = {"resume": 1, "restart": 2, "resample": 3, "reroute": 4}


class MachineryError(Exception):
    pass


class Unrepresentable(Exception):
    """a date of the run cannot be written as an integer number of ticks"""


class Exhausted(Exception):
    """a scripted stream was asked for more values than its script holds"""


class Livelock(Exception):
    pass


def frac(v):
    if isinstance(v, bool):
        raise TypeError("bool")
    if isinstance(v, (int, Fraction)):
        return Fraction(v)
    if isinstance(v, Decimal):
        return Fraction(v)
    if isinstance(v, float):
        return Fraction(v)
    raise TypeError(type(v))


class Ticks:
    """converts engine dates to exact Fractions (time units); `finalize` turns every
    Fraction of a finished trace into integer ticks at the trace's own scale"""

    def __call__(self, v, what=""):
        if v is False or v is None:
            return NONE
        if isinstance(v, str):
            return NONE
        if isinstance(v, bool):  # True
            return NONE
        if isinstance(v, float):
            if math.isnan(v):
                return NONE
            if math.isinf(v):
                return INF if v > 0 else -INF
        if isinstance(v, Decimal):
            if v.is_nan():
                return NONE
            if v.is_infinite():
                return INF if v > 0 else -INF
        return frac(v)


def _walk(o, f):
    if isinstance(o, Fraction):
        return f(o)
    if isinstance(o, dict):
        return {k: _walk(v, f) for k, v in o.items()}
    if isinstance(o, (list, tuple)):
        return [_walk(v, f) for v in o]
    return o


def finalize(trace, max_scale=720720, dec=0, eps=0):
    """integer ticks: scale = lcm of all denominators occurring in the trace (two-scale traces: the inverse of
    scenario.frac_of; a date off the lattice A * 10^-dec + B * 10^-eps is not an exact decimal sum of the samples)"""
    if eps:
        from .scenario import EPS_M
        cu, fu = 10 ** dec, 10 ** eps

        def conv2(fr):
            A = round(fr * cu)
            B = (fr - Fraction(A, cu)) * fu
            if B.denominator != 1:
                raise Unrepresentable("date %s is not on the decimal lattice 10^-%d + 10^-%d" % (fr, dec, eps))
            if abs(B) >= EPS_M // 2:
                raise Unrepresentable("date %s: fine part %s out of range" % (fr, B))
            n = A * EPS_M + int(B)
            if abs(n) >= INF // 10:
                raise Unrepresentable("date %s too large" % fr)
            return n
        out = _walk(trace, conv2)
        out["scale"] = EPS_M * cu
        return out
    dens = set()

    def coll(fr):
        dens.add(fr.denominator)
        return fr
    _walk(trace, coll)
    scale = 1
    for d in dens:
        scale = scale * d // math.gcd(scale, d)
        if scale > max_scale:
            raise Unrepresentable("tick scale %d exceeds %d" % (scale, max_scale))

    def conv(fr):
        n = (fr * scale).numerator
        if abs(n) >= INF // 10:
            raise Unrepresentable("date %s too large at scale %d" % (fr, scale))
        return n
    out = _walk(trace, conv)
    out["scale"] = scale
    return out


def iv(v):
    """small integers / ids; False/None/nan -> NONE"""
    if v is False or v is None:
        return NONE
    if isinstance(v, float):
        if math.isnan(v):
            return NONE
        if v == int(v):
            return int(v)
        return NONE
    if isinstance(v, bool):
        return 1
    return int(v)


class Recorder:
    """holds the step log of the event in progress and the class-name table"""

    def __init__(self, Q, ticks, class_names):
        self.Q = Q
        self.tk = ticks
        self.cls_idx = {c: k + 1 for k, c in enumerate(class_names)}
        self.steps = []
        self.recseq = []  # data records appended since the last event, in order
        self.exact = False
        self.inds = {}  # id -> Individual (every individual ever seen)

    def ci(self, name):
        return self.cls_idx.get(name, 0)

    def step(self, k, n=0, i=0, j=0, d=0, s=0, f=0, x=0, y=0, w=(), wq=()):
        self.steps.append({"k": k, "n": n, "i": i, "j": j, "d": d, "s": s, "f": f,
                           "x": x, "y": y, "w": list(w), "wq": [list(q) for q in wq]})

    def take_steps(self):
        s, self.steps = self.steps, []
        return s


def nid(node):
    return node.id_number if node is not None else 0


def capv(v):
    if isinstance(v, float) and math.isinf(v):
        return INF
    return int(v)


def _tolerant(fn, skip=0):
    """calls a hook with the arguments it declares: extra trailing positional arguments and unknown keyword
    arguments of the wrapped method (an internal signature that grew) are not the hook's business"""
    import inspect
    try:
        ps = list(inspect.signature(fn).parameters.values())
    except (TypeError, ValueError):
        return fn
    if any(p.kind == p.VAR_POSITIONAL for p in ps):
        npos = None
    else:
        npos = sum(1 for p in ps if p.kind in (p.POSITIONAL_ONLY, p.POSITIONAL_OR_KEYWORD))
    varkw = any(p.kind == p.VAR_KEYWORD for p in ps)
    names = {p.name for p in ps}

    def call(*a, **kw):
        if npos is not None:
            a = a[:npos]
        if not varkw:
            kw = {k: v for k, v in kw.items() if k in names}
        return fn(*a, **kw)
    return call


def wrap(obj, name, pre=None, post=None):
    """instance-level delegating wrapper around obj.<name> (the real bound method)"""
    real = getattr(obj, name)
    pre_c = _tolerant(pre) if pre is not None else None
    post_c = _tolerant(post) if post is not None else None

    def w(*a, **kw):
        if pre_c is not None:
            pre_c(*a, **kw)
        r = real(*a, **kw)
        if post_c is not None:
            post_c(r, *a, **kw)
        return r
    w.__wrapped__ = real
    object.__setattr__(obj, name, w)


def waiting_by_prio(node):
    return [[i.id_number for i in pl if not i.server] for pl in node.individuals]


def instrument_node(R, node):
    Q = R.Q
    tk = R.tk
    n = node.id_number

    def cnt(nd):
        return nd.number_of_individuals

    wrap(node, "accept", pre=lambda ind, *a, **k: R.step("accept", n=n, i=ind.id_number, x=cnt(node)))
    wrap(node, "attach_server", pre=lambda srv, ind: R.step("attach", n=n, s=srv.id_number, i=ind.id_number))
    wrap(node, "detatch_server", pre=lambda srv, ind: R.step("detach", n=n, s=srv.id_number, i=ind.id_number))
    wrap(node, "block_individual", pre=lambda ind, nn: R.step(
        "block", n=n, i=ind.id_number, d=nn.id_number, x=cnt(nn), y=capv(nn.node_capacity)))

    def pre_release(ind, nn, reroute=False):
        R.step("release", n=n, i=ind.id_number, d=nn.id_number,
               f=(2 if reroute else (1 if ind.is_blocked else 0)),
               x=(cnt(nn) if nn.id_number != -1 else 0), y=capv(nn.node_capacity))
    wrap(node, "release", pre=pre_release)

    def pre_rbi():
        flat = []
        for (a, b) in node.blocked_queue:
            flat += [a, b]
        R.step("rbi", n=n, x=cnt(node), y=capv(node.node_capacity), w=flat)
    wrap(node, "release_blocked_individual", pre=pre_rbi)
    wrap(node, "finish_service", pre=lambda: R.step("finish", n=n))

    def post_pick(r):
        R.step("pickind", n=n, i=r.id_number, w=[i.id_number for i in node.next_individual],
               f={"end_service": 0, "renege": 1}.get(node.next_event_type, 2))
    wrap(node, "decide_between_simultaneous_individuals", post=post_pick)

    ccstate = {}

    def pre_cc(ind):
        ccstate["old"] = ind.customer_class

    def post_cc(r, ind):
        if node.class_change:
            R.step("cchg", n=n, i=ind.id_number, x=R.ci(ccstate["old"]), y=R.ci(ind.customer_class))
    wrap(node, "change_customer_class", pre=pre_cc, post=post_cc)
    wrap(node, "renege", pre=lambda: R.step("renege", n=n))
    wrap(node, "change_customer_class_while_waiting",
         pre=lambda: R.step("ccw", n=n, i=(node.next_individual.id_number if node.next_individual is not None and not isinstance(node.next_individual, list) else 0)))
    wrap(node, "change_shift", pre=lambda: R.step("shift", n=n))
    wrap(node, "interrupt_service", pre=lambda ind: R.step("interrupt", n=n, i=ind.id_number))

    def pre_preempt(victim, by):
        ctx = []
        for s in getattr(node, "servers", []):
            c = s.cust
            if c is not False:
                ctx.append([s.id_number, c.id_number, c.priority_class, tk(c.service_start_date, "ss"),
                            1 if c.is_blocked else 0])
        R.step("preempt", n=n, i=victim.id_number, j=by.id_number, wq=ctx)
    wrap(node, "preempt", pre=pre_preempt)
    wrap(node, "reroute", pre=lambda ind: R.step("reroute", n=n, i=ind.id_number))

    def pre_slot():
        sc = node.schedule
        R.step("slot", n=n, x=iv(sc.slot_size), y=node.number_in_service, f=cnt(node),
               w=[i.id_number for i in node.interrupted_individuals])
    wrap(node, "slotted_service", pre=pre_slot)
    wrap(node, "kill_server", pre=lambda srv: R.step("kill", n=n, s=srv.id_number))
    wrap(node, "add_new_servers", pre=lambda num: R.step("addsrv", n=n, x=num))

    chst = {}

    def pre_choose():
        chst["wq"] = waiting_by_prio(node)

    def post_choose(r):
        R.step("choose", n=n, i=(r.id_number if r is not None else 0), wq=chst["wq"])
    wrap(node, "choose_next_customer", pre=pre_choose, post=post_choose)

    # the discipline is an attribute holding a plain function: wrap it the same way
    real_disc = node.service_discipline

    def disc(individuals, t):
        r = real_disc(individuals, t)
        R.step("disc", n=n, i=r.id_number, w=[i.id_number for i in individuals])
        return r
    node.service_discipline = disc


def instrument_arrival_node(R, an):
    Q = R.Q

    def pre_ev():
        R.step("arrival", n=an.next_node, x=R.ci(an.next_class))
    wrap(an, "have_event", pre=pre_ev)
    wrap(an, "batch_size", post=lambda r, nd, clss: R.step("bsize", n=nd, x=R.ci(clss), y=iv(r)))

    def pre_admit(nn, ind):
        R.inds[ind.id_number] = ind
        R.step("admit", n=nn.id_number, i=ind.id_number, x=nn.number_of_individuals,
               y=Q.number_of_individuals, f=R.ci(ind.customer_class))
    wrap(an, "release_individual", pre=pre_admit)
    wrap(an, "record_rejection", pre=lambda nn, ind: R.step("reject", n=nn.id_number, i=ind.id_number,
                                                            x=nn.number_of_individuals))
    wrap(an, "record_baulk", pre=lambda nn, ind: R.step("baulk", n=nn.id_number, i=ind.id_number,
                                                        x=nn.number_of_individuals))
    wrap(an, "send_individual", pre=lambda nn, ind: R.step("send", n=nn.id_number, i=ind.id_number))


def instrument_routers(R):
    Q = R.Q
    seen = set()
    for clss, router in Q.routers.items():
        if id(router) in seen:
            continue
        seen.add(id(router))
        for f, name in enumerate(["next_node", "next_node_for_rerouting", "next_node_for_jockeying"]):
            if not hasattr(router, name):
                continue

            def mk(f=f, name=name, router=router):
                st = {}

                def pre(ind, node_id):
                    st["c"] = [nd.number_of_individuals for nd in Q.transitive_nodes]
                    st["s"] = [nd.number_in_service for nd in Q.transitive_nodes]
                    st["depth"] = st.get("depth", 0) + 1

                def post(r, ind, node_id):
                    st["depth"] -= 1
                    if st["depth"] == 0:
                        R.step("route", n=node_id, i=ind.id_number, d=r.id_number, f=f,
                               x=R.ci(ind.customer_class), wq=[st["c"], st["s"]])
                wrap(router, name, pre=pre, post=post)
            mk()


def make_individual_class(R, base):
    class RecList(list):
        """data_records list that remembers the global order of appends"""

        def append(self, r):
            list.append(self, r)
            R.recseq.append(r)

    class RecIndividual(base):
        def __setattr__(self, name, value):
            if name == "service_start_date" and value is not False:
                srv = self.__dict__.get("server", False)
                sid = 0
                if srv is not False and srv is not True:
                    sid = getattr(srv, "id_number", 0)
                # a service start sets the date to the current time; release_blocked_individual restores the
                # original start date of an interrupted, blocked customer: that is not a start
                sim = self.__dict__.get("simulation", None)
                kind = "start"
                try:
                    if sim is not None and sim is not False and frac(value) != frac(sim.current_time):
                        kind = "ssrestore"
                except Exception:
                    pass
                R.step(kind, n=iv(self.__dict__.get("node", False)), i=self.__dict__.get("id_number", 0),
                       s=sid, x=R.tk(value, "ss"))
            elif name == "data_records" and type(value) is list:
                value = RecList(value)
            object.__setattr__(self, name, value)
    return RecIndividual


# ----------------------------------------------------------------------------- projection

def proj_server(tk, s):
    return {"id": s.id_number,
            "cust": (s.cust.id_number if s.cust is not False else 0),
            "busy": bool(s.busy), "off": bool(s.offduty),
            "nend": tk(s.next_end_service_date, "nend"),
            "start": tk(s.start_date, "srv.start"),
            "bt": tk(s.busy_time, "busy_time"),
            "btw": tk(getattr(s, "busy_time_before_wrap_up", None), "busy_time_before_wrap_up"),
            "send": tk(s.shift_end, "shift_end")}


def proj_node(R, node):
    tk = R.tk
    c = node.c
    inf = isinstance(c, float) and math.isinf(c)
    ni = node.next_individual
    if ni is None:
        nei = []
    elif isinstance(ni, list):
        nei = [getattr(i, "id_number", 0) for i in ni]     # (a faulty engine may schedule `False` as a customer)
    else:
        nei = [getattr(ni, "id_number", 0)]
    d = {"c": INF if inf else int(c),
         "cap": capv(node.node_capacity),
         "q": [[i.id_number for i in pl] for pl in node.individuals],
         "count": node.number_of_individuals,
         "insvc": node.number_in_service,
         "srv": [proj_server(tk, s) for s in getattr(node, "servers", [])] if not inf else [],
         "hid": (INF if isinstance(node.highest_id, float) else int(node.highest_id)),
         "bq": [[a, b] for (a, b) in node.blocked_queue],
         "lbq": node.len_blocked_queue,
         "intr": [i.id_number for i in node.interrupted_individuals],
         "nintr": node.number_interrupted_individuals,
         "ned": tk(node.next_event_date, "ned"),
         "net": node.next_event_type if node.next_event_type is not None else "none",
         "nei": nei,
         "shd": INF, "shc": 0, "shi": 0,
         "ot": [tk(v, "overtime") for v in node.overtime],
         "nccd": tk(getattr(node, "next_class_change_date", float("inf")), "nccd"),
         "ncci": (lambda x: x.id_number if x is not None else 0)(getattr(node, "next_class_change_ind", None)),
         "psocc": iv(getattr(node, "last_occupancy", 0)),
         }
    sc = node.schedule
    if sc is not None:
        fr = getattr(sc.schedule_generator, "gi_frame", None)
        d["shi"] = int(fr.f_locals.get("index", 0)) if fr is not None else NONE
        if sc.schedule_type == "slotted":
            d["shd"] = tk(sc.next_slot_date, "slotdate")
            d["shc"] = iv(sc.slot_size)
        else:
            d["shd"] = tk(node.next_shift_change, "shiftdate")
            d["shc"] = iv(sc.next_c)
    return d


def proj_last(R, ind):
    recs = ind.data_records
    if not recs:
        return {"lnode": 0, "ldest": NONE, "lexit": NONE, "larr": NONE, "ltype": "none", "nrec": 0}
    r = recs[-1]
    return {"lnode": iv(r.node), "ldest": iv(r.destination), "lexit": R.tk(r.exit_date, "rec.exit"),
            "larr": R.tk(r.arrival_date, "rec.arr"), "ltype": r.record_type, "nrec": len(recs)}


def proj_cust(R, ind):
    tk = R.tk
    srv = ind.server
    if srv is False or srv is None:
        sv = 0
    elif srv is True:
        sv = -1
    else:
        node = R.Q.nodes[ind.node] if isinstance(ind.node, int) and ind.node > 0 else None
        alive = node is not None and hasattr(node, "servers") and any(s is srv for s in node.servers)
        sv = srv.id_number if alive else -(100 + srv.id_number)
    st = ind.service_time
    d = {"id": ind.id_number, "loc": iv(ind.node),
         "cls": R.ci(ind.customer_class), "pcls": R.ci(ind.previous_class), "ocls": R.ci(ind.original_class),
         "prio": ind.priority_class, "pprio": ind.prev_priority_class,
         "arr": tk(ind.arrival_date, "arr"), "ss": tk(ind.service_start_date, "ss"),
         "st": (NONE if isinstance(st, str) else tk(st, "st")), "stm": (MARK.get(st, 0) if isinstance(st, str) else 0),
         "se": tk(ind.service_end_date, "se"),
         "srv": sv, "blk": bool(ind.is_blocked), "dest": iv(ind.destination),
         "intr": bool(ind.interrupted),
         "rdate": tk(getattr(ind, "reneging_date", False), "rdate"),
         "left": tk(getattr(ind, "time_left", False), "left"),
         "ost": (lambda v: NONE if isinstance(v, str) else tk(v, "ost"))(getattr(ind, "original_service_time", False)),
         "oss": tk(getattr(ind, "original_service_start_date", False), "oss"),
         "ccd": tk(getattr(ind, "class_change_date", False), "ccd"),
         "ncls": R.ci(getattr(ind, "next_class", None)),
         "qa": iv(ind.queue_size_at_arrival),
         "route": proj_route(getattr(ind, "route", None)),
         "ws": bool(getattr(ind, "with_server", False)),
         "lupd": tk(getattr(ind, "date_last_update", False), "lupd"),
         }
    d.update(proj_last(R, ind))
    return d


def proj_route(r):
    if r is None:
        return []
    out = []
    for e in r:
        if isinstance(e, (list, tuple)):
            out.append([int(v) for v in e])
        else:
            out.append([int(e)])
    return out


def proj_rec(R, r):
    tk = R.tk
    return {"id": r.id_number, "n": iv(r.node), "type": r.record_type,
            "cls": R.ci(r.customer_class), "ocls": R.ci(r.original_customer_class),
            "arr": tk(r.arrival_date, "r.arr"), "wait": tk(r.waiting_time, "r.wait"),
            "ss": tk(r.service_start_date, "r.ss"), "st": tk(r.service_time, "r.st"),
            "se": tk(r.service_end_date, "r.se"), "tb": tk(r.time_blocked, "r.tb"),
            "exit": tk(r.exit_date, "r.exit"), "dest": iv(r.destination),
            "qa": iv(r.queue_size_at_arrival), "qd": iv(r.queue_size_at_departure),
            "sid": iv(r.server_id) if r.server_id is not False else 0,
            "dec": (not R.exact) or all(isinstance(v, Decimal) or v is False or (isinstance(v, float) and math.isnan(v))
                                         for v in (r.arrival_date, r.waiting_time, r.service_start_date, r.service_time,
                                                   r.service_end_date, r.time_blocked, r.exit_date))}


def _srv_name(name):
    # "Server 2 at Node 1"
    parts = str(name).split()
    try:
        return int(parts[-1]), int(parts[1])
    except Exception:
        return 0, 0


def proj_digraph(Q):
    det = Q.deadlock_detector
    g = getattr(det, "statedigraph", None)
    if g is None:
        return []
    out = []
    for a, b in g.edges():
        n1, s1 = _srv_name(a)
        n2, s2 = _srv_name(b)
        out.append([n1, s1, n2, s2])
    return sorted(out)


def enc_tracker_state(name, st):
    """structured encoding <<a, b, m>> of a tracker's hashed state"""
    if name == "StateTracker" or st is None:
        return [[], [], []]
    if name == "SystemPopulation":
        return [[int(st)], [], []]
    if name in ("NodePopulation", "NodePopulationSubset", "GroupedNodePopulation"):
        return [[int(v) for v in st], [], []]
    if name in ("NodeClassMatrix", "NaiveBlocking"):
        return [[], [[int(v) for v in row] for row in st], []]
    if name == "MatrixBlocking":
        return [[int(v) for v in st[-1]], [], [[[int(v) for v in cell] for cell in row] for row in st[0]]]
    return [[], [], []]


def proj_tracker(R):
    trk = R.Q.statetracker
    st = getattr(trk, "state", None)
    name = type(trk).__name__
    d = {"a": [], "b": [], "m": [], "inc": int(getattr(trk, "increment", 1)),
         "hl": len(trk.history), "ht": R.tk(trk.history[-1][0], "hist")}
    if name == "SystemPopulation":
        d["a"] = [int(st)]
    elif name in ("NodePopulation", "NodePopulationSubset", "GroupedNodePopulation"):
        d["a"] = [int(v) for v in st]
    elif name in ("NodeClassMatrix", "NaiveBlocking"):
        d["b"] = [[int(v) for v in row] for row in st]
    elif name == "MatrixBlocking":
        d["m"] = [[[int(v) for v in cell] for cell in row] for row in st[0]]
        d["a"] = [int(v) for v in st[-1]]
    return d


def project(R):
    """abstract state of the live simulation (DESIGN appendix B)"""
    Q = R.Q
    tk = R.tk
    an = Q.nodes[0]
    ex = Q.nodes[-1]
    names = sorted(R.cls_idx, key=lambda c: R.cls_idx[c])
    live = {}
    order = []
    for node in Q.transitive_nodes:
        for pl in node.individuals:
            for ind in pl:
                if id(ind) not in live:
                    live[id(ind)] = ind
                    order.append(ind)
                R.inds.setdefault(ind.id_number, ind)
    for ind in ex.all_individuals:
        R.inds.setdefault(ind.id_number, ind)
    order.sort(key=lambda i: i.id_number)
    st = {"now": tk(Q.current_time, "now"),
          "created": an.number_of_individuals,
          "accepted": an.number_accepted_individuals,
          "completed": ex.number_of_completed_individuals,
          "nexit": ex.number_of_individuals,
          "arr": [[tk(an.event_dates_dict[n + 1][c], "arrdate") for c in names]
                  for n in range(Q.network.number_of_nodes)],
          "and": tk(an.next_event_date, "an.ned"),
          "ann": iv(an.next_node) if an.next_node is not None else 0,
          "anc": R.ci(an.next_class),
          "nodes": [proj_node(R, nd) for nd in Q.transitive_nodes],
          "cu": [proj_cust(R, i) for i in order],
          "exit": [i.id_number for i in ex.all_individuals],
          "unchecked": bool(Q.unchecked_blockage),
          "trk": proj_tracker(R),
          "dg": proj_digraph(Q),
          }
    return st


def new_records(R):
    """records appended since the last call, in the order the engine appended them"""
    seq = R.recseq
    out = [proj_rec(R, r) for r in seq]
    del seq[:]
    return out
