"""Runs one scenario on the real engine and records the trace (code -> spec direction),
optionally steering every draw from a script (spec -> code direction)."""
import math
import random as _pyrandom
import os
import sys
import traceback
from fractions import Fraction

from . import rec
from .rec import (NONE, INF, EXIT, Recorder, Ticks, Exhausted, Livelock, Unrepresentable, MachineryError,
                  instrument_node, instrument_arrival_node, instrument_routers, make_individual_class,
                  project, new_records, finalize)
from .scenario import Ctx, build, normalise, to_cfg, DEN, unit_of, frac_of

U20 = 1 << 20


class LabelledRandom:
    """replacement for random.random inside a run: identifies the purpose of each uniform
    draw from the calling frames, logs it, and (in scripted mode) returns a value that
    selects the wanted outcome from the array the engine actually passes"""

    PURPOSES = {
        "find_next_active_node": "tie_node",
        "decide_between_simultaneous_individuals": "tie_ind",
        "SIRO": "siro",
        "change_customer_class": "class",
        "find_next_node_from_subset": "flex",
        "decide_baulk": "baulk",
    }

    def __init__(self, ctx):
        self.ctx = ctx
        self.want = {}  # purpose -> list of wanted outcomes (scripted mode)
        self.plan = None  # spec -> code replay: list (per event index) of {purpose: [wanted outcomes]}
        self.run = None

    def purpose(self):
        f = sys._getframe(2)
        rc = None
        depth = 0
        while f is not None and depth < 8:
            name = f.f_code.co_name
            if name == "random_choice" and rc is None:
                rc = f
            if name in self.PURPOSES:
                return self.PURPOSES[name], rc
            if name == "next_node":
                slf = f.f_locals.get("self")
                cns = [c.__name__ for c in type(slf).__mro__] if slf is not None else []
                if "Probabilistic" in cns:
                    return "route", rc
                if "JoinShortestQueue" in cns:
                    return "jsq", rc
            f = f.f_back
            depth += 1
        return "unknown", rc

    def __call__(self):
        purpose, rc = self.purpose()
        ctx = self.ctx
        u = None
        wants = self.want.get(purpose)
        if self.plan is not None and self.run is not None:
            k = len(self.run.events) + (1 if self.run.in_event else 0)   # index of the event in progress (0 = before the first)
            if purpose == "tie_node":
                # chosen at the end of event k (or before the first event) for event k + 1 / 1
                nxt = k + 1 if self.run.in_event else 1 if not self.run.events else k + 1
                wants = self.plan[nxt].get("tie_node_of_this_event") if nxt < len(self.plan) else None
                wants = list(wants) if wants else None
            else:
                wants = self.plan[k].get(purpose) if k < len(self.plan) else None
        if wants:
            w = wants.pop(0)
            u = self.select(purpose, rc, w)
        if u is None:
            r = ctx.rng.random()
            if ctx.adversarial and r < ctx.adversarial:
                u = ctx.rng.choice([0.0, 0.25, 0.5, 0.75, 1.0 - 2.0 ** -53])
            else:
                u = ctx.rng.random()
        if purpose == "baulk":
            ctx.step("bu", x=int(math.floor(u * U20)))
        return u

    def select(self, purpose, rc, want):
        """uniform value that makes random_choice return the element identified by `want`"""
        if purpose == "baulk":
            return want  # a float given directly
        if rc is None:
            return None
        array = rc.f_locals.get("array")
        probs = rc.f_locals.get("probs")
        idx = None
        for j, el in enumerate(array):
            ident = getattr(el, "id_number", el)
            if not isinstance(ident, (int, str)):
                ident = 0  # arrival node
            if ident == want:
                idx = j
                break
        if idx is None:
            return None
        if probs is None:
            return (idx + 0.5) / len(array)
        lo = sum(probs[:idx])
        return lo + probs[idx] / 2.0


class Run:
    def __init__(self, sc, seed=0, script=None, wants=None, adversarial=0.0, max_events=400, tid=0):
        self.sc = normalise(sc)
        self.ctx = Ctx(seed=seed, script=script, adversarial=adversarial)
        self.lr = LabelledRandom(self.ctx)
        if wants:
            self.lr.want = {k: list(v) for k, v in wants.items()}
        self.max_events = max_events
        self.tid = tid
        self.events = []
        self.in_event = False
        self.recseq = []
        self.outcome = "returned"
        self.crash = None

    def patch_random(self, ciw):
        import random
        import ciw.arrival_node
        import ciw.node
        self._saved = (random.random, ciw.arrival_node.random, ciw.node.random)
        random.random = self.lr
        ciw.arrival_node.random = self.lr
        ciw.node.random = self.lr

    def unpatch_random(self, ciw):
        import random
        import ciw.arrival_node
        import ciw.node
        random.random, ciw.arrival_node.random, ciw.node.random = self._saved

    def make_sim(self):
        import ciw
        sc = self.sc
        net, names = build(sc, self.ctx)
        self.names = names
        kw = {}
        if any(nd["kind"] == "ps" for nd in sc["nodes"]):
            kw["node_class"] = [ciw.PSNode if nd["kind"] == "ps" else ciw.Node for nd in sc["nodes"]]
        self.tk = Ticks()
        holder = {}

        class Lazy:  # the individual class needs the recorder before the Simulation exists
            def step(self_, *a, **k):
                self.ctx.step(*a, **k)
            tk = self.tk
            recseq = self.recseq
        kw["individual_class"] = make_individual_class(Lazy(), ciw.Individual)
        trk = sc["tracker"]
        if trk != "none":
            kw["tracker"] = make_tracker(ciw, sc)
        if sc["detector"] == "digraph":
            kw["deadlock_detector"] = ciw.deadlock.StateDigraph()
        if sc["exact"]:
            kw["exact"] = sc["exact"]
        Q = ciw.Simulation(net, **kw)
        return Q

    def execute(self):
        import ciw
        self.patch_random(ciw)
        try:
            return self._execute(ciw)
        finally:
            self.unpatch_random(ciw)

    def _execute(self, ciw):
        sc = self.sc
        try:
            Q = self.make_sim()
        except (Exhausted, Unrepresentable):
            raise
        except Exception as e:
            # an exception while the Simulation is being built (e.g. an invalid first inter-arrival sample):
            # a trace without events whose outcome is the crash
            if not sc.get("fault"):
                raise
            self.outcome = "crash"
            self.crash = crash_info(e)
            empty = {"now": 0, "created": 0, "accepted": 0, "completed": 0, "nexit": 0,
                     "arr": [[INF] * sc["K"] for _ in range(sc["N"])], "and": INF, "ann": 0, "anc": 0,
                     "nodes": [], "cu": [], "exit": [], "unchecked": False,
                     "trk": {"a": [], "b": [], "m": [], "inc": 1, "hl": 1, "ht": 0}, "dg": [],
                     "steps": [], "recs": [], "ev": {"kind": "init", "node": 0, "cls": 0, "date": 0}}
            self.init = empty
            self.final = dict(empty, ttd=[], util=[], probs=[])
            return self.trace()
        self.Q = Q
        R = Recorder(Q, self.tk, self.names)
        R.recseq = self.recseq
        R.exact = bool(sc["exact"])
        self.R = R
        for a, k in self.ctx.pending:
            R.step(*a, **k)
        self.ctx.pending = []
        self.ctx.R = R
        instrument_arrival_node(R, Q.nodes[0])
        for nd in Q.transitive_nodes:
            instrument_node(R, nd)
        instrument_routers(R)
        init = project(R)
        init["steps"] = R.take_steps()
        init["recs"] = []
        init["ev"] = {"kind": "init", "node": 0, "cls": 0, "date": Fraction(0)}
        self.init = init
        real = Q.event_and_return_nextnode
        state = {"same": 0, "lastkey": None}

        def wrapper(next_active_node):
            an = Q.nodes[0]
            if next_active_node is an:
                ev = {"kind": "arrival", "node": int(an.next_node), "cls": R.ci(an.next_class)}
            else:
                ev = {"kind": str(next_active_node.next_event_type), "node": next_active_node.id_number, "cls": 0}
            ev["date"] = self.tk(Q.current_time)
            if len(self.events) >= self.max_events:
                raise StopRun()
            self.in_event = True
            try:
                r = real(next_active_node)
            except (Exhausted, StopRun):
                self.in_event = False
                raise
            except Exception as e:  # crash inside ciw: terminal event of the trace
                self.crash = crash_info(e)
                raise Crash()
            post = project(R)
            post["steps"] = R.take_steps()
            post["recs"] = new_records(R)
            post["ev"] = ev
            self.events.append(post)
            self.in_event = False
            key = (post["now"], post["created"], post["nexit"], tuple(n["count"] for n in post["nodes"]))
            if key == state["lastkey"]:
                state["same"] += 1
                if state["same"] > 60:
                    raise Livelock()
            else:
                state["same"] = 0
                state["lastkey"] = key
            return r
        Q.event_and_return_nextnode = wrapper

        def after_timestamp(r):
            # timestamp() runs right after the event returns: the history seen "after the event" includes it
            if self.events:
                h = Q.statetracker.history
                self.events[-1]["trk"]["hl"] = len(h)
                self.events[-1]["trk"]["ht"] = self.tk(h[-1][0], "hist")
        rec.wrap(Q.statetracker, "timestamp", post=after_timestamp)

        def after_detect(r):
            # detect_deadlock() is called by the loop right after the event; the loop then clears the flag
            if self.events:
                e = self.events[-1]
                e["steps"].append({"k": "ddl", "n": 0, "i": 0, "j": 0, "d": 0, "s": 0, "f": 0,
                                   "x": 1 if r else 0, "y": 0, "w": [], "wq": []})
                e["unchecked"] = False
        rec.wrap(Q.deadlock_detector, "detect_deadlock", post=after_detect)
        _stderr = sys.stderr
        if sc.get("pbar"):
            sys.stderr = open(os.devnull, "w")      # the progress bar draws on stderr; its arithmetic still runs
        try:
            if sc["stop"] == "time":
                from .scenario import tv
                for Ti in sc["splits"]:
                    # the run is made in several calls: each return is logged as a pseudo-event `pause`
                    Q.simulate_until_max_time(tv(sc, Ti))
                    post = project(R)
                    post["steps"] = R.take_steps()
                    post["recs"] = new_records(R)
                    post["ev"] = {"kind": "pause", "node": 0, "cls": 0, "date": frac_of(sc, Ti)}
                    self.events.append(post)
                Q.simulate_until_max_time(tv(sc, sc["T"]), **({"progress_bar": True} if sc.get("pbar") else {}))
            elif sc["stop"] == "deadlock":
                Q.simulate_until_deadlock()
            else:
                Q.simulate_until_max_customers(sc["maxc"], method=sc["stop"], **({"progress_bar": True} if sc.get("pbar") else {}))
        except Exhausted:
            self.outcome = "exhausted"
        except StopRun:
            self.outcome = "truncated"
        except Crash:
            self.outcome = "crash"
        except Livelock:
            self.outcome = "livelock"
        except Unrepresentable:
            raise
        except Exception as e:  # crash outside an event (loop, wrap-up)
            self.outcome = "crash"
            self.crash = crash_info(e)
        if sys.stderr is not _stderr:
            sys.stderr.close()
            sys.stderr = _stderr
        final = project(R)
        final["steps"] = R.take_steps()
        final["recs"] = new_records(R)
        final["ev"] = {"kind": "final", "node": 0, "cls": 0, "date": self.tk(Q.current_time)}
        final["util"] = [util_report(nd) for nd in Q.transitive_nodes]
        final["probs"] = self.prob_report(Q)
        name = type(Q.statetracker).__name__
        final["ttd"] = [{"s": rec.enc_tracker_state(name, st), "t": self.tk(v)}
                        for st, v in getattr(Q, "times_to_deadlock", {}).items()]
        self.final = final
        return self.trace()

    def prob_report(self, Q):
        """state_probabilities for a few observation windows, each share as an exact fraction un/ud"""
        sc = self.sc
        if sc["tracker"] == "none" or sc["stop"] != "time" or sc["exact"] or self.outcome != "returned":
            return []
        from .scenario import tv
        T = sc["T"]
        name = type(Q.statetracker).__name__
        wins = [(0, T), (T // 4, max(T // 4 + 1, (3 * T) // 4)), (1, 2), (T // 2, T)]
        out = []
        for a, b in wins:
            if not (0 <= a < b):
                continue
            try:
                res = Q.statetracker.state_probabilities(observation_period=(tv(sc, a), tv(sc, b)))
            except Exception as e:
                out.append({"a": frac_of(sc, a), "b": frac_of(sc, b), "res": [], "err": True})
                continue
            rows = []
            for st, p in res.items():
                fr = Fraction(float(p)).limit_denominator(10 ** 6)
                ok = fr.numerator / fr.denominator == float(p)
                rows.append({"s": rec.enc_tracker_state(name, st), "un": fr.numerator if ok else -1,
                             "ud": fr.denominator if ok else 1})
            out.append({"a": frac_of(sc, a), "b": frac_of(sc, b), "res": rows, "err": False})
        return out

    def trace(self):
        t = {"tid": self.tid, "cfg": to_cfg(self.sc), "init": self.init, "events": self.events,
             "final": self.final, "outcome": self.outcome,
             "crash": self.crash or {"type": "", "where": "", "msg": ""}}
        t = finalize(t, dec=self.sc.get("dec", 0), eps=self.sc.get("eps", 0))
        t["cfg"]["scale"] = t["scale"]
        return t


def util_report(nd):
    """the node's reported server_utilisation as an exact fraction un/ud (ud = 0: None / not reported)"""
    u = getattr(nd, "server_utilisation", None)
    if u is None:
        return {"un": 0, "ud": 0}
    try:
        fr = Fraction(float(u)).limit_denominator(10 ** 6)
        if fr.numerator / fr.denominator != float(u):
            return {"un": -1, "ud": 1}      # not a ratio of small integers: cannot equal attached/present ticks
        return {"un": fr.numerator, "ud": fr.denominator}
    except Exception:
        return {"un": -1, "ud": 1}


class StopRun(Exception):
    pass


class Crash(Exception):
    pass


def crash_info(e):
    tb = traceback.extract_tb(e.__traceback__)
    where = ""
    for fr in tb:
        if "/ciw/" in fr.filename and "/verif/" not in fr.filename:
            where = "%s:%s" % (fr.filename.split("/ciw/")[-1], fr.name)
    return {"type": type(e).__name__, "where": where, "msg": str(e)[:200]}


def make_tracker(ciw, sc):
    t = sc["tracker"]
    N = sc["N"]
    if t == "system":
        return ciw.trackers.SystemPopulation()
    if t == "node":
        return ciw.trackers.NodePopulation()
    if t == "subset":
        return ciw.trackers.NodePopulationSubset(sc.get("observed", list(range(N))))
    if t == "grouped":
        return ciw.trackers.GroupedNodePopulation(sc.get("groups", [[n] for n in range(N)]))
    if t == "nodeclass":
        return ciw.trackers.NodeClassMatrix()
    if t == "naive":
        return ciw.trackers.NaiveBlocking()
    if t == "matrix":
        return ciw.trackers.MatrixBlocking()
    raise ValueError(t)


def run_scenario(sc, **kw):
    return Run(sc, **kw).execute()
