"""Scenario language: one JSON document from which both the real ciw objects and the
TLA+ configuration record (`cfg`) are derived (DESIGN.md 4.1).

All time-valued entries are integers (time units); probabilities are numerators over DEN.
"""
import json
import math
import random as _random
import sys
from fractions import Fraction

from .rec import (NONE, INF, EXIT, Recorder, Ticks, Exhausted, instrument_node,
                  instrument_arrival_node, instrument_routers, make_individual_class)

DEN = 4  # probabilities are k/DEN (exact binary fractions)


def default_node(**kw):
    d = {"kind": "std", "c": 1, "qcap": INF, "disc": "FIFO", "pp": 0, "ccm": [],
         "ren": [], "bk": [], "sched": {"nums": [], "ends": [], "pre": 0, "off": 0},
         "slot": {"slots": [], "sizes": [], "cap": False, "pre": 0, "off": 0},
         "psR": 1, "spf": 0}
    d.update(kw)
    return d


def normalise(sc):
    """fill defaults so that the cfg record is total and type-homogeneous"""
    N, K = sc["N"], sc["K"]
    sc.setdefault("prio", [0] * K)
    sc.setdefault("syscap", INF)
    sc["nodes"] = [default_node(**nd) for nd in sc["nodes"]]
    if any(nd["ccm"] for nd in sc["nodes"]):
        for nd in sc["nodes"]:
            if not nd["ccm"]:  # create_network needs a matrix for every node: identity
                nd["ccm"] = [[(DEN if a == b else 0) for b in range(K)] for a in range(K)]
    for nd in sc["nodes"]:
        if not nd["ren"]:
            nd["ren"] = [False] * K
        if not nd["bk"]:
            nd["bk"] = [[] for _ in range(K)]
    empty = lambda: [[[] for _ in range(K)] for _ in range(N)]
    for key in ("arrS", "batchS", "svcS", "patS"):
        if key not in sc:
            sc[key] = empty()
    for n in range(N):
        for k in range(K):
            if sc["arrS"][n][k] and not sc["batchS"][n][k]:
                sc["batchS"][n][k] = [1]
    sc.setdefault("cct", [[[] for _ in range(K)] for _ in range(K)])
    sc.setdefault("route", [{"kind": "tm", "P": [[0] * N for _ in range(N)]} for _ in range(K)])
    for r in sc["route"]:
        r.setdefault("P", [])
        r.setdefault("routers", [])
        r.setdefault("routes", [])
        r.setdefault("rule", "any")
        r.setdefault("choice", "random")
        r.setdefault("same", 0)      # k > 0: this class uses the very same routing object as class k
        for nr in r["routers"]:
            nr.setdefault("dests", [])
            nr.setdefault("probs", [])
            nr.setdefault("to", 0)
            nr.setdefault("tie", "random")
            nr.setdefault("cyc", [])
            nr.setdefault("jock", 0)
    sc.setdefault("T", 10)
    sc.setdefault("stop", "time")
    sc.setdefault("maxc", 0)
    sc.setdefault("tracker", "none")
    sc.setdefault("observed", list(range(N)))
    sc.setdefault("groups", [[n] for n in range(N)])
    sc.setdefault("detector", "none")
    sc.setdefault("exact", 0)
    sc.setdefault("dec", 0)
    sc.setdefault("eps", 0)
    sc.setdefault("dev", [])
    sc.setdefault("couple", [])
    sc.setdefault("fault", 0)
    sc.setdefault("splits", [])
    return sc


class Ctx:
    """shared context of one run: draw source (random or scripted) and the recorder"""

    def __init__(self, seed=0, script=None, adversarial=0.0):
        self.rng = _random.Random(seed)
        self.script = script  # None = random mode; else dict stream-key -> list
        self.R = None
        self.pending = []
        self.adversarial = adversarial
        self.draws = {}  # stream-key -> list of values served (for replay files)

    def step(self, *a, **kw):
        if self.R is None:
            self.pending.append((a, kw))
        else:
            self.R.step(*a, **kw)

    def draw(self, key, allowed):
        key = "/".join(str(v) for v in key)
        if self.script is not None and key in self.script:
            q = self.script[key]
            if not q:
                raise Exhausted(key)
            v = q.pop(0)
            if isinstance(v, str) and v.startswith("!"):      # fault injection values (JSON-safe encoding)
                v = {"!nan": float("nan"), "!none": None, "!str": "x", "!neg": -1, "!frac": 1.5}[v]
        else:
            v = self.rng.choice(list(allowed))
        self.draws.setdefault(key, []).append(v)
        return v


def _import_ciw():
    import ciw
    return ciw


def unit_of(sc):
    return Fraction(1, 10 ** sc.get("dec", 0))


EPS_M = 10000


def frac_of(sc, v):
    """exact time value of a tick count.  Ordinary scenarios: v * 10^-dec.  Two-scale scenarios (sc["eps"] = e,
    exact mode with 16-17 significant digits): a tick is A * EPS_M + B and stands for A * 10^-dec + B * 10^-e; the
    map is additive and order preserving as long as |B| < EPS_M / 2, so the integer image of an exact run is a run
    of the specification (rec.finalize inverts it and rejects dates that are not on the lattice)"""
    if sc.get("eps"):
        A, B = divmod(int(v), EPS_M)
        return Fraction(A, 10 ** sc.get("dec", 0)) + Fraction(B, 10 ** sc["eps"])
    return Fraction(v) * unit_of(sc)


def tv(sc, v):
    """engine value of a tick count: int when the unit is 1, else the decimal float nearest to the exact value"""
    if unit_of(sc) == 1 and not sc.get("eps"):
        return v
    return float(frac_of(sc, v))


def make_dists(ciw, sc, ctx):
    tk = Ticks()
    unit = unit_of(sc)

    class ScriptDist(ciw.dists.Distribution):
        def __init__(self, kind, n, k, allowed):
            self.kind, self.n, self.k, self.allowed = kind, n, k, allowed

        def __deepcopy__(self, memo):
            return self  # scripted streams are harness objects: sharing is harmless

        def __repr__(self):
            return "ScriptDist(%s,%s,%s)" % (self.kind, self.n, self.k)

        def sample(self, t=None, ind=None):
            v = ctx.draw((self.kind, self.n, self.k), self.allowed)
            i = ind.id_number if ind is not None else 0
            if isinstance(v, (int, Fraction)) and not isinstance(v, bool):
                y = (frac_of(sc, v) if self.kind != "batch" else v)
                if self.kind != "batch" and (unit != 1 or sc.get("eps")):
                    v = float(y)
            else:
                y = NONE  # fault-injection values (None, 'x', nan, ...) are logged as NONE
            ctx.step(self.kind, n=self.n, x=self.k, i=i, y=y,
                     f=(tk(t) if t is not None else NONE))
            return v
    return ScriptDist


def make_router(ciw, sc, ctx, r, k):
    N = sc["N"]
    kind = r["kind"]
    if kind == "tm":
        return ciw.routing.TransitionMatrix(transition_matrix=[[p / DEN for p in row[:N]] for row in r["P"]])
    if kind == "nr":
        routers = []
        for nr in r["routers"]:
            t = nr["t"]
            if t == "prob":
                routers.append(ciw.routing.Probabilistic(destinations=list(nr["dests"]),
                                                         probs=[p / DEN for p in nr["probs"]]))
            elif t == "direct":
                routers.append(ciw.routing.Direct(to=nr["to"]))
            elif t == "leave":
                routers.append(ciw.routing.Leave())
            elif t == "jsq":
                routers.append(ciw.routing.JoinShortestQueue(destinations=list(nr["dests"]), tie_break=nr["tie"]))
            elif t == "lb":
                routers.append(ciw.routing.LoadBalancing(destinations=list(nr["dests"]), tie_break=nr["tie"]))
            elif t == "cycle":
                routers.append(ciw.routing.Cycle(cycle=list(nr["cyc"])))
            else:
                raise ValueError(t)
            if nr.get("jock"):
                # a user-defined router (documented extension point): reneging customers jockey to node `jock`
                base = type(routers[-1])
                jk = nr["jock"]
                routers[-1].__class__ = type("Jockeying" + base.__name__, (base,),
                                             {"next_node_for_jockeying": (lambda self, ind, jk=jk: self.simulation.nodes[jk])})
        return ciw.routing.NetworkRouting(routers=routers)
    if kind in ("pb", "fpb"):
        routes = r["routes"]

        def fn(ind, simulation):
            j = ctx.draw(("routefn", k + 1, 0), range(len(routes)))
            ctx.step("routefn", i=ind.id_number, x=k + 1, y=j)
            rt = routes[j]
            if kind == "pb":
                return [e[0] for e in rt]
            return [list(e) for e in rt]
        if kind == "pb":
            return ciw.routing.ProcessBased(fn)
        return ciw.routing.FlexibleProcessBased(fn, rule=r["rule"], choice=r["choice"])
    raise ValueError(kind)


SPF = {}


def spf_last_first(srv, ind):
    return -srv.id_number


def spf_less_busy(srv, ind):
    return srv.busy_time


SPF = {0: None, 1: spf_last_first, 2: spf_less_busy}


def build(sc, ctx):
    """returns the real ciw.Network for the scenario"""
    ciw = _import_ciw()
    N, K = sc["N"], sc["K"]
    names = ["C%d" % (k + 1) for k in range(K)]
    SD = make_dists(ciw, sc, ctx)
    # class-keyed dictionaries are filled in REVERSED class order: ciw must not depend on the insertion
    # order of the user's dictionaries (it sorts class names itself)
    korder = list(range(K))[::-1] if sc.get("dictorder", "reversed") == "reversed" else list(range(K))

    def dists(key, kind):
        out = {}
        for k in korder:
            row = []
            for n in range(N):
                al = sc[key][n][k]
                row.append(SD(kind, n + 1, k + 1, al) if al else None)
            out[names[k]] = row
        return out
    kw = {}
    kw["arrival_distributions"] = dists("arrS", "ia")
    svc = dists("svcS", "svc")
    for k in range(K):
        for n in range(N):
            if svc[names[k]][n] is None:
                svc[names[k]][n] = SD("svc", n + 1, k + 1, [1])
    kw["service_distributions"] = svc
    bat = dists("batchS", "batch")
    for k in range(K):
        for n in range(N):
            if bat[names[k]][n] is None:
                bat[names[k]][n] = ciw.dists.Deterministic(1)
    kw["batching_distributions"] = bat
    if any(sc["patS"][n][k] for n in range(N) for k in range(K)):
        kw["reneging_time_distributions"] = dists("patS", "pat")
    sched_objs = {}
    servers = []
    for nd in sc["nodes"]:
        if nd["kind"] in ("std", "ps"):
            servers.append(float("inf") if nd["c"] >= INF else nd["c"])
        elif nd["kind"] == "sched":
            s = nd["sched"]
            pre = {0: False, 1: "resume", 2: "restart", 3: "resample", 4: "reroute"}[s["pre"]]
            # nodes with identical timetables are given the very same Schedule object (a user may well pass one rota
            # to several nodes): every node must still follow it independently
            key = json.dumps([s["nums"], s["ends"], s["pre"], s["off"]])
            if key not in sched_objs:
                sched_objs[key] = ciw.Schedule(numbers_of_servers=list(s["nums"]), shift_end_dates=[tv(sc, e) for e in s["ends"]],
                                               preemption=pre, offset=float(tv(sc, s["off"])))
            servers.append(sched_objs[key])
        elif nd["kind"] == "slot":
            s = nd["slot"]
            pre = {0: False, 1: "resume", 2: "restart", 3: "resample"}[s["pre"]]
            servers.append(ciw.Slotted(slots=[tv(sc, e) for e in s["slots"]], slot_sizes=list(s["sizes"]),
                                       capacitated=bool(s["cap"]), preemption=pre, offset=float(tv(sc, s["off"]))))
        else:
            raise ValueError(nd["kind"])
    kw["number_of_servers"] = servers
    kw["queue_capacities"] = [float("inf") if nd["qcap"] >= INF else nd["qcap"] for nd in sc["nodes"]]
    if sc["syscap"] < INF:
        kw["system_capacity"] = sc["syscap"]
    pmap = {names[k]: sc["prio"][k] for k in korder}
    pps = [{0: False, 1: "resume", 2: "restart", 3: "resample", 4: "reroute"}[nd["pp"]] for nd in sc["nodes"]]
    if any(pps):
        kw["priority_classes"] = (pmap, pps)
    elif len(set(sc["prio"])) > 1 or any(sc["prio"]):
        kw["priority_classes"] = pmap
    if any(nd["ccm"] for nd in sc["nodes"]):
        ccms = []
        for nd in sc["nodes"]:
            ccms.append({names[a]: {names[b]: nd["ccm"][a][b] / DEN for b in korder} for a in korder})
        kw["class_change_matrices"] = ccms
    if any(sc["cct"][a][b] for a in range(K) for b in range(K)):
        kw["class_change_time_distributions"] = {
            names[a]: {names[b]: (SD("cct", a + 1, b + 1, sc["cct"][a][b]) if sc["cct"][a][b] else None)
                       for b in range(K)} for a in korder}
    if any(nd["bk"][k] for nd in sc["nodes"] for k in range(K)):
        bf = {}
        for k in korder:
            row = []
            for n, nd in enumerate(sc["nodes"]):
                tab = nd["bk"][k]
                if tab:
                    def mk(tab=tab, n=n):
                        def f(pop, Q=None, next_ind=None, next_node=None):
                            p = tab[min(pop, len(tab) - 1)] if pop >= 0 else tab[0]
                            ctx.step("bfn", n=n + 1, i=(next_ind.id_number if next_ind is not None else 0),
                                     x=pop, y=p)
                            return p / DEN
                        return f
                    row.append(mk())
                else:
                    row.append(None)
            bf[names[k]] = row
        kw["baulking_functions"] = bf
    discs = {"FIFO": ciw.disciplines.FIFO, "LIFO": ciw.disciplines.LIFO, "SIRO": ciw.disciplines.SIRO}
    kw["service_disciplines"] = [discs[nd["disc"]] for nd in sc["nodes"]]
    if any(nd["spf"] for nd in sc["nodes"]):
        kw["server_priority_functions"] = [SPF[nd["spf"]] for nd in sc["nodes"]]
    if any(nd["kind"] == "ps" for nd in sc["nodes"]):
        kw["ps_thresholds"] = [Fraction(nd["psR"]) for nd in sc["nodes"]]
    robj = {}
    for k in range(K):
        same = sc["route"][k].get("same", 0)
        robj[k] = robj[same - 1] if same else make_router(ciw, sc, ctx, sc["route"][k], k)
    kw["routing"] = {names[k]: robj[k] for k in korder}
    return ciw.create_network(**kw), names


def to_cfg(sc):
    """the TLA+ configuration record: time-valued entries as Fractions (finalize scales them)"""
    unit = unit_of(sc)

    def F(v):
        return frac_of(sc, v)

    def fl(lst):
        return [F(v) for v in lst]
    cfg = {"N": sc["N"], "K": sc["K"], "P": len(set(sc["prio"])), "prio": list(sc["prio"]),
           "syscap": sc["syscap"], "T": F(sc["T"]) if sc["T"] < INF else INF, "stop": sc["stop"], "maxc": sc["maxc"],
           "tracker": sc["tracker"], "observed": list(sc["observed"]), "groups": [list(g) for g in sc["groups"]], "detector": sc["detector"], "exact": sc["exact"], "dec": sc["dec"], "eps": sc.get("eps", 0), "dev": list(sc["dev"]), "couple": list(sc["couple"]), "fault": sc["fault"], "splits": fl(sc["splits"]),
           "arrS": [[fl(c) for c in n] for n in sc["arrS"]],
           "batchS": [[list(c) for c in n] for n in sc["batchS"]],
           "svcS": [[fl(c) if c else [F(1)] for c in n] for n in sc["svcS"]],
           "patS": [[fl(c) for c in n] for n in sc["patS"]],
           "cct": [[fl(c) for c in n] for n in sc["cct"]],
           "route": sc["route"], "nodes": []}
    for nd in sc["nodes"]:
        d = dict(nd)
        d["sched"] = dict(nd["sched"])
        d["sched"]["ends"] = fl(nd["sched"]["ends"])
        d["sched"]["off"] = F(nd["sched"]["off"])
        d["slot"] = dict(nd["slot"])
        d["slot"]["slots"] = fl(nd["slot"]["slots"])
        d["slot"]["off"] = F(nd["slot"]["off"])
        cfg["nodes"].append(d)
    return cfg
