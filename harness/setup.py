"""MANIFEST.setup_cmd: offline sanity step - parse every TLA+ module, import the harness against /repo"""
import os, subprocess, sys
VERIF = os.path.dirname(os.path.dirname(os.path.abspath(__file__)))
JAR = "/opt/veriftools/tla/tla2tools.jar:/opt/veriftools/tla/CommunityModules-deps.jar"
def main():
    spec = os.path.join(VERIF, "spec")
    open(os.path.join(spec, "MCFamily.tla"), "w").write("---- MODULE MCFamily ----\nEXTENDS Integers\nFamily == <<>>\nMaxCreated == 1\nExportDepth == 5\n====\n")
    rc = 0
    for m in ["CiwTrace.tla", "CiwMC.tla"]:
        p = subprocess.run(["java", "-cp", JAR, "tla2sany.SANY", m], cwd=spec, capture_output=True, text=True)
        ok = p.returncode == 0 and "Error" not in p.stdout
        print("SANY", m, "ok" if ok else "FAILED")
        if not ok:
            print(p.stdout[-2000:]); rc = 2
    os.remove(os.path.join(spec, "MCFamily.tla"))
    sys.path.insert(0, os.environ.get("CIWVERIF_REPO", "/repo"))
    import ciw
    from harness import rec, scenario, run, tlc, families, check
    print("harness imports ok; ciw from", ciw.__file__)
    os.makedirs(os.path.join(VERIF, "evidence"), exist_ok=True)
    sys.exit(rc)
if __name__ == "__main__":
    main()
