"""python -m harness.sweep <family[,family]> <n> [seed0] [max_events] : traces of the real engine judged for ALL properties"""
import json, os, sys, collections
from concurrent.futures import ThreadPoolExecutor
from harness import check, tlc

def main():
    fams = sys.argv[1].split(",")
    n = int(sys.argv[2]); seed0 = int(sys.argv[3]) if len(sys.argv) > 3 else 0
    me = int(sys.argv[4]) if len(sys.argv) > 4 else 60
    jobs = [(fams[j % len(fams)], seed0 + j, me, 0.1 if j % 5 == 0 else 0.0) for j in range(n)]
    res = check.generate_traces(jobs)
    traces = []
    errs = collections.Counter()
    for job, t, err in res:
        if err: errs[err[:200]] += 1
        else: traces.append(t)
    nb = 16
    batches = [b for b in (traces[i::nb] for i in range(nb)) if b]
    work = os.path.join(tlc.VERIF, ".work", "sweep")
    def val(arg):
        i, b = arg
        slim = [{k: t[k] for k in ("tid", "cfg", "init", "events", "final", "outcome", "crash", "scale")} for t in b]
        return tlc.run_trace_validation(os.path.join(work, "tv%d" % i), slim, name="b%d" % i)
    with ThreadPoolExecutor(nb) as ex:
        outs = list(ex.map(val, enumerate(batches)))
    known = check.load_known()
    fails = collections.Counter(); drifts = collections.Counter(); ex_f = {}; ex_d = {}; outc = collections.Counter()
    wit = collections.Counter()
    for b, (vs, st, wall) in zip(batches, outs):
        for t, v in zip(b, vs):
            outc[t["outcome"] + ":" + t["crash"]["type"] + ":" + t["crash"]["where"]] += 1
            for w in v["wits"]: wit[w] += 1
            if v.get("unjudged"):
                drifts["UNJUDGED"] += 1; ex_d.setdefault("UNJUDGED", (t["family"], t["seed"], v["drift"][0][2][0][:200]))
            taint = {x[0]: x[1] for x in v.get("taint", [])}
            for c, idx in v["fails"]:
                prop = c.split(".")[0]
                kn = [f["id"] for f in check.explaining([f for f in known if f["status"] == "open"], v, c, idx)]
                key = c + ("  [known " + kn[0] + "]" if kn else "")
                fails[key] += 1; ex_f.setdefault(key, (t["family"], t["seed"], idx))
            for d in v["drift"][:1]:
                key = d[1] + ":" + ",".join(sorted(d[2]))
                drifts[key] += 1; ex_d.setdefault(key, (t["family"], t["seed"], d[0]))
    print("traces", len(traces), "events", sum(len(t["events"]) for t in traces), "errors", dict(errs))
    print("outcomes", dict(outc))
    for c, k in fails.most_common(): print("FAIL", c, k, ex_f[c])
    for c, k in drifts.most_common(): print("DRIFT", c, k, ex_d[c])
    print("witnesses", dict(wit))
if __name__ == "__main__":
    main()
