"""TLC driver: model-checking instances generated from scenarios, trace-validation batches."""
import json
import os
import re
import shutil
import subprocess
import time
from fractions import Fraction

from .rec import finalize
from .scenario import normalise, to_cfg

VERIF = os.path.dirname(os.path.dirname(os.path.abspath(__file__)))
SPEC = os.path.join(VERIF, "spec")
JAR = "/opt/veriftools/tla/tla2tools.jar:/opt/veriftools/tla/CommunityModules-deps.jar"


def to_tla(v):
    if isinstance(v, bool):
        return "TRUE" if v else "FALSE"
    if isinstance(v, int):
        return str(v)
    if isinstance(v, Fraction):
        assert v.denominator == 1, v
        return str(v.numerator)
    if isinstance(v, str):
        return json.dumps(v)
    if isinstance(v, (list, tuple)):
        return "<<" + ", ".join(to_tla(x) for x in v) + ">>"
    if isinstance(v, dict):
        return "[" + ", ".join("%s |-> %s" % (k, to_tla(x)) for k, x in v.items()) + "]"
    raise TypeError(type(v))


def cfg_of(sc):
    c = finalize({"cfg": to_cfg(normalise(sc))})
    cfg = c["cfg"]
    cfg["scale"] = c["scale"]
    return cfg


def java_cmd(main, args, workers=None, heap="6g", extra_props=()):
    cmd = ["java", "-XX:+UseParallelGC", "-Xmx" + heap, "-Xss32m"]
    cmd += list(extra_props)
    cmd += ["-cp", JAR, main] + args
    return cmd


def copy_spec(workdir):
    os.makedirs(workdir, exist_ok=True)
    for f in os.listdir(SPEC):
        if f.endswith(".tla"):
            shutil.copy(os.path.join(SPEC, f), workdir)


TLC_STATES = re.compile(r"(\d+) states generated, (\d+) distinct states found, (\d+) states left on queue")


def run_mc(workdir, cfgs, invariants, properties, max_created, workers=16, timeout=600, simulate=None,
           depth=None, seed=0, coverage=False, export=False):
    """exhaustive (or -simulate) TLC run of CiwMC over the family `cfgs`.
    returns dict(status, states, distinct, transitions, wall, out, violated)"""
    copy_spec(workdir)
    with open(os.path.join(workdir, "MCFamily.tla"), "w") as f:
        f.write("---- MODULE MCFamily ----\nEXTENDS Integers\n")
        f.write("Family == <<\n  " + ",\n  ".join(to_tla(dict(c, idx=j + 1)) for j, c in enumerate(cfgs)) + "\n>>\n")
        f.write("MaxCreated == %d\n" % max_created)
        f.write("ExportDepth == %d\n" % (depth or 20))
        f.write("====\n")
    with open(os.path.join(workdir, "CiwMC.cfg"), "w") as f:
        f.write("SPECIFICATION Spec\nCHECK_DEADLOCK FALSE\nCONSTRAINT Bound\nVIEW View\n")
        for i in invariants + (["Export"] if export else []):
            f.write("INVARIANT %s\n" % i)
        for p in properties:
            f.write("PROPERTY %s\n" % p)
    args = ["-workers", str(workers), "-metadir", os.path.join(workdir, "meta"), "-noGenerateSpecTE",
            "-config", "CiwMC.cfg"]
    if coverage:
        args += ["-coverage", "1"]
    if simulate:
        args += ["-simulate", "num=%d" % simulate, "-depth", str(depth or 30), "-seed", str(seed)]

    args += ["CiwMC.tla"]
    t0 = time.time()
    try:
        p = subprocess.run(java_cmd("tlc2.TLC", args), cwd=workdir, capture_output=True, text=True,
                           timeout=timeout)
        out = p.stdout + p.stderr
        status = "ok" if p.returncode == 0 else "fail"
    except subprocess.TimeoutExpired as e:
        out = (e.stdout or b"").decode() if isinstance(e.stdout, bytes) else (e.stdout or "")
        status = "timeout"
        subprocess.run(["pkill", "-f", "metadir " + os.path.join(workdir, "meta")])
    wall = time.time() - t0
    res = {"status": status, "wall": wall, "out": out, "states": 0, "distinct": 0, "violated": None}
    m = None
    for m in TLC_STATES.finditer(out):
        pass
    if m:
        res["states"] = int(m.group(1))
        res["distinct"] = int(m.group(2))
    m2 = re.search(r"Invariant (\w+) is violated", out) or re.search(r"Action property (\w+) is violated", out)
    if m2:
        res["violated"] = m2.group(1)
        res["status"] = "violation"
    elif status == "fail":
        res["status"] = "error"
    shutil.rmtree(os.path.join(workdir, "meta"), ignore_errors=True)
    return res


def run_trace_validation(workdir, traces, timeout=900, name="b"):
    """validates a list of trace dicts; returns (verdicts, states, wall).  If TLC fails on the batch (an evaluation
    error of the specification on some logged state), the batch is bisected: the offending trace gets the verdict
    `unjudged` and every other trace is still judged."""
    t0 = time.time()
    try:
        return _run_trace_validation(workdir, traces, timeout, name)
    except RuntimeError as e:
        if len(traces) == 1:
            t = traces[0]
            msg = str(e)
            i = msg.find("Error:")
            v = {"tid": t["tid"], "n": 0, "outcome": t["outcome"], "fails": [], "wits": [], "taint": [],
                 "drift": [[0, "tlc-error", [msg[i:i + 400] if i >= 0 else msg[:400]]]], "unjudged": True}
            return [v], 0, time.time() - t0
        h = len(traces) // 2
        a, sa, _ = run_trace_validation(workdir, traces[:h], timeout, name + "a")
        b, sb, _ = run_trace_validation(workdir, traces[h:], timeout, name + "b")
        return a + b, sa + sb, time.time() - t0


def _run_trace_validation(workdir, traces, timeout=900, name="b"):
    """one JVM"""
    copy_spec(workdir)
    tf = os.path.join(workdir, name + ".traces.ndjson")
    of = os.path.join(workdir, name + ".out.ndjson")
    with open(tf, "w") as f:
        for t in traces:
            f.write(json.dumps(t) + "\n")
    if os.path.exists(of):
        os.remove(of)
    with open(os.path.join(workdir, "CiwTrace.cfg"), "w") as f:
        f.write("SPECIFICATION TraceSpec\nCHECK_DEADLOCK FALSE\n")
    env = dict(os.environ, TRACE_FILE=tf, OUT_FILE=of)
    args = ["-workers", "1", "-metadir", os.path.join(workdir, "meta_" + name), "-noGenerateSpecTE",
            "-config", "CiwTrace.cfg", "CiwTrace.tla"]
    t0 = time.time()
    p = subprocess.run(java_cmd("tlc2.TLC", args, heap="3g"), cwd=workdir, capture_output=True, text=True,
                       timeout=timeout, env=env)
    out = p.stdout + p.stderr
    shutil.rmtree(os.path.join(workdir, "meta_" + name), ignore_errors=True)
    if not os.path.exists(of):
        raise RuntimeError("trace validation produced no verdicts:\n" + (out[out.find("Error:"):][:2500] if "Error:" in out else out[-3000:]))
    verdicts = [json.loads(l) for l in open(of)]
    if len(verdicts) != len(traces):
        raise RuntimeError("verdict count %d != traces %d\n%s" % (len(verdicts), len(traces), out[-2000:]))
    m = None
    for m in TLC_STATES.finditer(out):
        pass
    states = int(m.group(2)) if m else 0
    os.remove(tf)
    return verdicts, states, time.time() - t0


def run_pair_validation(workdir, pairs, timeout=900, name="p"):
    """judges pair documents with spec/CiwPair.tla; returns list of verdicts"""
    copy_spec(workdir)
    tf = os.path.join(workdir, name + ".pairs.ndjson")
    of = os.path.join(workdir, name + ".out.ndjson")
    with open(tf, "w") as f:
        for t in pairs:
            d = {k: t[k] for k in ("pid", "prop", "a", "b")}
            for side in ("a", "b"):
                d[side].setdefault("left", 0)
            f.write(json.dumps(d) + "\n")
    if os.path.exists(of):
        os.remove(of)
    with open(os.path.join(workdir, "CiwPair.cfg"), "w") as f:
        f.write("SPECIFICATION Spec\nCHECK_DEADLOCK FALSE\n")
    env = dict(os.environ, TRACE_FILE=tf, OUT_FILE=of)
    args = ["-workers", "1", "-metadir", os.path.join(workdir, "meta_" + name), "-noGenerateSpecTE",
            "-config", "CiwPair.cfg", "CiwPair.tla"]
    p = subprocess.run(java_cmd("tlc2.TLC", args, heap="3g"), cwd=workdir, capture_output=True, text=True,
                       timeout=timeout, env=env)
    out = p.stdout + p.stderr
    shutil.rmtree(os.path.join(workdir, "meta_" + name), ignore_errors=True)
    if not os.path.exists(of):
        raise RuntimeError("pair validation produced no verdicts:\n" + out[-3000:])
    verdicts = [json.loads(l) for l in open(of)]
    if len(verdicts) != len(pairs):
        raise RuntimeError("verdict count mismatch\n" + out[-2000:])
    m = None
    for m in TLC_STATES.finditer(out):
        pass
    os.remove(tf)
    return verdicts, (int(m.group(2)) if m else 0)


BEH = re.compile(r'^<<"BEH", "(.*)">>$')


def parse_behaviours(out):
    """behaviours printed by CiwMC!Export: list of lists of state dicts (state 0 = initial state)"""
    behs = []
    for line in out.splitlines():
        m = BEH.match(line.strip())
        if not m:
            continue
        b = json.loads(json.loads('"' + m.group(1) + '"'))
        if isinstance(b, dict):      # ToJson of a function 1..n may come out as an object keyed "1".."n"
            b = [b[str(j)] for j in range(1, len(b) + 1)]
        if len(b) > 1 and all(x["err"] == "" for x in b):
            behs.append(b)
    return behs
