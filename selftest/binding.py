"""Binding demonstration (DESIGN 4.2): the trace validator must reject corrupted recordings.
   python -m selftest.binding   (exit 0 = every corruption was rejected in the expected way)"""
import copy, json, os, random, sys
sys.path.insert(0, os.environ.get("CIWVERIF_REPO", "/repo"))
from harness.families import FAMILIES
from harness.run import Run
from harness import tlc


def base_trace(fam, seed):
    rng = random.Random("%s/%d" % (fam, seed))
    sc = FAMILIES[fam](rng)
    return Run(copy.deepcopy(sc), seed=seed, max_events=40, tid=seed).execute()


def main():
    t = base_trace("tandem", 3)
    assert len(t["events"]) > 12
    cases = []
    # 0. the untouched trace is accepted
    cases.append(("untouched", copy.deepcopy(t), set(), False))
    # 1. a customer id moved to another node's queue
    c = copy.deepcopy(t)
    e = next(e for e in c["events"] if any(nd["q"][0] for nd in e["nodes"]) and len(e["nodes"]) > 1)
    src = next(nd for nd in e["nodes"] if nd["q"][0])
    dst = next(nd for nd in e["nodes"] if nd is not src)
    dst["q"][0].append(src["q"][0].pop(0))
    cases.append(("customer moved to another queue", c, {"C01.node-count", "C01.location"}, True))
    # 2. a service record with a wrong service time
    c = copy.deepcopy(t)
    r = next(r for e in c["events"] for r in e["recs"] if r["type"] == "service")
    r["st"] += 1
    cases.append(("record service time + 1", c, {"C02.record-arithmetic"}, True))
    # 3. the clock of one event moved back
    c = copy.deepcopy(t)
    c["events"][8]["now"] = c["events"][6]["now"] - 1
    cases.append(("clock moved back", c, {"C02.clock-monotone"}, True))
    # 4. a dropped hook: all `release` micro-steps missing from the log
    c = copy.deepcopy(t)
    for e in c["events"]:
        e["steps"] = [s for s in e["steps"] if s["k"] != "release"]
    cases.append(("release hook removed", c, set(), True))
    # 5. a service draw replaced by another value (the engine did not honour the sample)
    c = copy.deepcopy(t)
    s = next(s for e in c["events"] for s in e["steps"] if s["k"] == "svc")
    s["y"] += 1
    cases.append(("logged service sample + 1", c, {"C10.service-lasts-the-sample"}, True))
    for j, (_, c, _, _) in enumerate(cases):
        c["tid"] = j
    slim = [{k: c[k] for k in ("tid", "cfg", "init", "events", "final", "outcome", "crash", "scale")} for _, c, _, _ in cases]
    verdicts, _, _ = tlc.run_trace_validation(os.path.join(tlc.VERIF, ".work", "selftest"), slim, name="s")
    ok = True
    for (name, _, want, want_drift), v in zip(cases, verdicts):
        got = {f[0] for f in v["fails"]}
        drift = bool(v["drift"])
        good = want <= got and drift == want_drift and (want or want_drift or not got)
        print("%-36s failed clauses %-60s drift %-5s %s" % (name, sorted(got)[:4], drift, "OK" if good else "UNEXPECTED"))
        ok = ok and good
    sys.exit(0 if ok else 1)


if __name__ == "__main__":
    main()
