-------------------------------- MODULE Ciw --------------------------------
(***************************************************************************)
(* Specification of the Ciw discrete-event engine (ciw/simulation.py,      *)
(* node.py, arrival_node.py, exit_node.py, routing, schedules) at the      *)
(* granularity of the code: one operator per state-changing method, one    *)
(* top-level action per event kind.                                        *)
(*                                                                         *)
(* Style.  The whole simulation state is one record S (its fields are the  *)
(* projection of DESIGN.md 2.1 plus the observation fields ev/steps/recs   *)
(* of the event that produced it and the configuration S.cfg).  Every      *)
(* operator maps a state to the SET of states it can lead to; random draws *)
(* (samples, tie-breaks, routing, class changes, baulking) are explicit    *)
(* choices `Pick`.  In model-checking mode a Pick ranges over the allowed  *)
(* values; in trace mode it is restricted to the value the implementation  *)
(* logged (S.script), which makes the successor unique.                    *)
(*                                                                         *)
(* Time is integer ticks.  NONE/INF/EXIT are the sentinels of CiwBase.     *)
(***************************************************************************)
EXTENDS CiwBase

----------------------------------------------------------------------------
(* Monad plumbing *)

Ok(S) == S.err = ""
Bind(SS, F(_)) == UNION {IF Ok(s) THEN F(s) ELSE {s} : s \in SS}
Crash(S, why) == {[S EXCEPT !.err = why]}
Step(S, r) == [S EXCEPT !.steps = Append(@, r)]

Cfg(S) == S.cfg
NodeCfg(S, n) == S.cfg.nodes[n]
Nd(S, n) == S.nodes[n]
NNodes(S) == S.cfg.N
Dev(S, d) == InSeq(S.cfg.dev, d)

\* Customer lookup is TOTAL: traces of a faulty implementation may name customers that are not where the
\* log says (the refinement check then reports drift; the operators must not make TLC fail).
HasCu(S, i) == \E j \in DOMAIN S.cu : S.cu[j].id = i
CuIdx(S, i) == CHOOSE j \in DOMAIN S.cu : S.cu[j].id = i
Phantom(i) ==
    [id |-> i, loc |-> NONE, cls |-> 1, pcls |-> 1, ocls |-> 1, prio |-> 0, pprio |-> 0,
     arr |-> NONE, ss |-> NONE, st |-> NONE, stm |-> 0, se |-> NONE, srv |-> 0, blk |-> FALSE,
     dest |-> NONE, intr |-> FALSE, rdate |-> NONE, left |-> NONE, ost |-> NONE, oss |-> NONE,
     ccd |-> NONE, ncls |-> 1, qa |-> NONE, route |-> <<>>, ws |-> FALSE, lupd |-> NONE,
     lnode |-> 0, ldest |-> NONE, lexit |-> NONE, larr |-> NONE, ltype |-> "none", nrec |-> 0]
Cu(S, i) == IF HasCu(S, i) THEN S.cu[CuIdx(S, i)] ELSE Phantom(i)
SetCu(S, i, c) == IF HasCu(S, i) THEN [S EXCEPT !.cu[CuIdx(S, i)] = c] ELSE S
DelCu(S, i) == IF HasCu(S, i) THEN [S EXCEPT !.cu = RemoveAt(@, CuIdx(S, i))] ELSE S

IsInfC(S, n) == Nd(S, n).c >= INF
IsSlotted(S, n) == NodeCfg(S, n).kind = "slot"
IsSched(S, n) == NodeCfg(S, n).kind = "sched"
IsPS(S, n) == NodeCfg(S, n).kind = "ps"
NodeReneging(S, n) == \E k \in 1..S.cfg.K : S.cfg.patS[n][k] # <<>>
Dynamic(S) == \E a, b \in 1..S.cfg.K : S.cfg.cct[a][b] # <<>>

----------------------------------------------------------------------------
(* Draws.  The j-th draw of kind k inside an event is, in trace mode, the   *)
(* j-th logged step of kind k of that event.                                *)

NumSteps(S, k) == Len(SelectSeq(S.steps, LAMBDA s : s.k = k))
Logged(S, k) == SelectSeq(S.script, LAMBDA s : s.k = k)

\* values a Pick may take: fld is the field of the logged step carrying the value
\* uniform draws: a small grid in model checking, any logged value in trace mode
UGrid(S) == IF S.mode = "mc" THEN {0, U20 \div 4, U20 \div 2, 3 * (U20 \div 4), U20 - 1} ELSE 0..(U20 - 1)

PickVals(S, k, fld, Allowed) ==
    IF S.mode = "mc" THEN Allowed
    ELSE LET lg == Logged(S, k)
             j == NumSteps(S, k) + 1
         IN IF j <= Len(lg) /\ lg[j][fld] \in Allowed THEN {lg[j][fld]} ELSE {}

----------------------------------------------------------------------------
(* Data records *)

Rec(c, n, type, now, dest, qd, sid) ==
    [id |-> c.id, n |-> n, type |-> type, cls |-> c.pcls, ocls |-> c.ocls,
     arr |-> c.arr, wait |-> NONE, ss |-> NONE, st |-> NONE, se |-> NONE, tb |-> NONE,
     exit |-> now, dest |-> dest, qa |-> c.qa, qd |-> qd, sid |-> sid, dec |-> TRUE]

\* append record r of customer c and update the customer's last-record summary
WriteRec(S, i, r) ==
    LET c == Cu(S, i)
        c2 == [c EXCEPT !.lnode = r.n, !.ldest = r.dest, !.lexit = r.exit, !.larr = r.arr,
                        !.ltype = r.type, !.nrec = @ + 1]
    IN [SetCu(S, i, c2) EXCEPT !.recs = Append(@, r)]

----------------------------------------------------------------------------
(* Customers *)

NewCu(id, k, prio) ==
    [id |-> id, loc |-> NONE, cls |-> k, pcls |-> k, ocls |-> k, prio |-> prio, pprio |-> prio,
     arr |-> NONE, ss |-> NONE, st |-> NONE, stm |-> 0, se |-> NONE, srv |-> 0, blk |-> FALSE,
     dest |-> NONE, intr |-> FALSE, rdate |-> NONE, left |-> NONE, ost |-> NONE, oss |-> NONE,
     ccd |-> NONE, ncls |-> 0, qa |-> NONE, route |-> <<>>, ws |-> FALSE, lupd |-> NONE,
     lnode |-> 0, ldest |-> NONE, lexit |-> NONE, larr |-> NONE, ltype |-> "none", nrec |-> 0]

\* ids at node n in all_individuals order (priority lists flattened)
AllInds(S, n) == Flatten(Nd(S, n).q)
WaitingOf(S, ids) == SelectSeq(ids, LAMBDA i : Cu(S, i).srv = 0)

----------------------------------------------------------------------------
(* Deadlock detection (ciw/deadlock/deadlock_detector.py, StateDigraph): vertices are servers      *)
(* <<node, server id>>, S.dg is the set of edges <<n1, s1, n2, s2>>.                                *)

HasDetector(S) == S.cfg.detector = "digraph"

\* action_at_blockage: edges from the blocked customer's server to every server of the destination
\* the digraph's vertices are the names of Server objects; a customer without one (infinite-server node, slotted
\* node) is str(False) / str(True), which the projection writes <<0, 0>>; a removed server keeps its name
DgVertex(n, srv) == IF srv > 0 THEN <<n, srv>> ELSE IF srv <= 0 - 100 THEN <<n, 0 - srv - 100>> ELSE <<0, 0>>

DgBlock(S, n, sid, d) ==
    IF ~HasDetector(S) THEN S
    ELSE LET v == DgVertex(n, sid)
         IN [S EXCEPT !.dg = @ \cup {<<v[1], v[2], d, Nd(S, d).srv[a].id>> : a \in DOMAIN Nd(S, d).srv}]

\* action_at_attach_server: customers still blocked to this node point to the newly attached server again
DgAttach(S, n, sid, i) ==
    IF ~HasDetector(S) THEN S
    ELSE [S EXCEPT !.dg = @ \cup {LET v == DgVertex(bq[1], Cu(S, bq[2]).srv) IN <<v[1], v[2], n, sid>> :
                                     bq \in {b \in Range(Nd(S, n).bq) : b[2] # i /\ HasCu(S, b[2])}}]

\* action_at_detatch_server: all edges in and out of the server disappear
DgDetach(S, n, sid) ==
    IF ~HasDetector(S) THEN S
    ELSE [S EXCEPT !.dg = {e \in @ : ~((e[1] = n /\ e[2] = sid) \/ (e[3] = n /\ e[4] = sid))}]

\* is there a knot?  (strongly connected component without an edge leaving it; a singleton needs a self-loop)
Knot(E) ==
    LET V == {<<e[1], e[2]>> : e \in E} \cup {<<e[3], e[4]>> : e \in E}
        Succ(v) == {<<e[3], e[4]>> : e \in {f \in E : f[1] = v[1] /\ f[2] = v[2]}}
        RECURSIVE ReachFrom(_, _)
        ReachFrom(front, seen) ==
            LET nxt == UNION {Succ(v) : v \in front} \ seen
            IN IF nxt = {} THEN seen ELSE ReachFrom(nxt, seen \cup nxt)
        Desc(v) == ReachFrom({v}, {})          \* vertices reachable by at least one edge
        SCC(v) == {v} \cup {u \in Desc(v) : v \in Desc(u)}
    IN \E v \in V :
          LET c == SCC(v)
          IN IF Cardinality(c) = 1 THEN Succ(v) = {v}
             ELSE \E u \in c : Desc(u) \ {u} \subseteq c

----------------------------------------------------------------------------
(* Servers *)

HasSrv(S, n, sid) == \E j \in DOMAIN Nd(S, n).srv : Nd(S, n).srv[j].id = sid
SrvIdx(S, n, sid) == CHOOSE j \in DOMAIN Nd(S, n).srv : Nd(S, n).srv[j].id = sid
NoServer(sid) == [id |-> sid, cust |-> 0, busy |-> FALSE, off |-> FALSE, nend |-> INF, start |-> 0, bt |-> 0, btw |-> NONE, send |-> NONE]
Srv(S, n, sid) == IF HasSrv(S, n, sid) THEN Nd(S, n).srv[SrvIdx(S, n, sid)] ELSE NoServer(sid)   \* total, see Cu
SetSrv(S, n, sid, r) == IF HasSrv(S, n, sid) THEN [S EXCEPT !.nodes[n].srv[SrvIdx(S, n, sid)] = r] ELSE S

\* a customer whose server object was removed at a pre-emptive shift end keeps a reference to it
DeadRef(sid) == 0 - (100 + sid)
IsDeadRef(v) == v <= -100
DeadId(v) == (0 - v) - 100

\* order in which find_free_server scans the servers
SrvOrder(S, n) ==
    LET sv == Nd(S, n).srv
        spf == NodeCfg(S, n).spf
    IN IF spf = 0 THEN [j \in DOMAIN sv |-> j]
       ELSE IF spf = 1 THEN [j \in DOMAIN sv |-> Len(sv) + 1 - j]     \* key -id : ids ascend in list order
       ELSE \* spf = 2: ascending busy time, stable
            LET Before(a, b) == sv[a].bt < sv[b].bt \/ (sv[a].bt = sv[b].bt /\ a < b)
                Rank(a) == Cardinality({b \in DOMAIN sv : Before(b, a)}) + 1
            IN [j \in DOMAIN sv |-> CHOOSE a \in DOMAIN sv : Rank(a) = j]

\* id of the first free server, 0 if none
FindFree(S, n) ==
    IF IsInfC(S, n) THEN 0
    ELSE LET sv == Nd(S, n).srv
             ord == SrvOrder(S, n)
             free == {j \in DOMAIN ord : ~sv[ord[j]].busy}
         IN IF free = {} THEN 0 ELSE sv[ord[SetMin(free)]].id

Attach(S, n, sid, i) ==
    LET s == Srv(S, n, sid)
        S1 == Step(S, [St("attach") EXCEPT !.n = n, !.s = sid, !.i = i])
        S2 == SetSrv(S1, n, sid, [s EXCEPT !.cust = i, !.busy = TRUE])
    IN DgAttach(SetCu(S2, i, [Cu(S2, i) EXCEPT !.srv = sid]), n, sid, i)

KillServer(S, n, sid) ==
    LET nd == Nd(S, n)
        s == Srv(S, n, sid)
        S1 == Step(S, [St("kill") EXCEPT !.n = n, !.s = sid])
        S2 == IF s.cust # 0 /\ HasCu(S1, s.cust) THEN SetCu(S1, s.cust, [Cu(S1, s.cust) EXCEPT !.srv = DeadRef(sid)])
              ELSE S1
    IN IF ~HasSrv(S, n, sid) THEN S2
       ELSE [S2 EXCEPT !.nodes[n].ot = Append(@, S.now - s.send),
                       !.nodes[n].srv = RemoveAt(@, SrvIdx(S, n, sid))]

\* detatch_server: credit = exit_date - service_start_date as the code computes it
Detach(S, n, sid, i, credit) ==
    LET s == Srv(S, n, sid)
        S1 == DgDetach(Step(S, [St("detach") EXCEPT !.n = n, !.s = sid, !.i = i]), n, sid)
        \* undo_wrap_up: the credit of an earlier stop of the simulation is taken back (restored exactly)
        S2 == SetSrv(S1, n, sid, [s EXCEPT !.cust = 0, !.busy = FALSE,
                                           !.bt = (IF s.btw # NONE THEN s.btw ELSE s.bt) + credit, !.btw = NONE])
        S3 == SetCu(S2, i, [Cu(S2, i) EXCEPT !.srv = 0])
    IN IF s.off THEN KillServer(S3, n, sid) ELSE S3

----------------------------------------------------------------------------
(* Service times *)

\* a fresh service-time sample for customer i at node n (class = current class)
DrawSvc(S, n, i, K(_, _)) ==
    LET c == Cu(S, i)
        vals == PickVals(S, "svc", "y", Range(S.cfg.svcS[n][c.cls]))
    IN UNION {K(Step(S, [St("svc") EXCEPT !.n = n, !.x = c.cls, !.i = i, !.y = v, !.f = S.now]), v)
              : v \in vals}

\* reset_class_change (only with dynamic classes)
RECURSIVE FindNextClassChange(_, _)
FindNextClassChange(S, n) ==
    LET ids == AllInds(S, n)
        RECURSIVE Scan(_, _, _)
        Scan(j, bd, bi) ==
            IF j > Len(ids) THEN <<bd, bi>>
            ELSE LET c == Cu(S, ids[j])
                     d == IF c.ccd = NONE THEN INF ELSE c.ccd
                 IN IF d < bd /\ c.srv = 0 THEN Scan(j + 1, d, c.id) ELSE Scan(j + 1, bd, bi)
        r == Scan(1, INF, 0)
    IN [S EXCEPT !.nodes[n].nccd = r[1], !.nodes[n].ncci = r[2]]

ResetClassChange(S, n, i) ==
    IF ~Dynamic(S) THEN S
    ELSE LET S1 == SetCu(S, i, [Cu(S, i) EXCEPT !.ccd = INF])
         IN IF Nd(S1, n).ncci = i THEN FindNextClassChange(S1, n) ELSE S1

\* decide_class_change: one draw per configured target class (class order), strict minimum
DecideClassChange(S, n, i) ==
    IF ~Dynamic(S) THEN {S}
    ELSE
      LET K == S.cfg.K
          RECURSIVE Loop(_, _, _, _)
          Loop(T, b, bt, bc) ==
              IF b > K THEN
                 LET c == Cu(T, i)
                     T2 == SetCu(T, i, [c EXCEPT !.ncls = bc, !.ccd = AddT(T.now, bt)])
                 IN {FindNextClassChange(T2, n)}
              ELSE LET al == T.cfg.cct[Cu(T, i).cls][b]
                   IN IF al = <<>> THEN Loop(T, b + 1, bt, bc)
                      ELSE UNION {LET T1 == Step(T, [St("cct") EXCEPT !.n = Cu(T, i).cls, !.x = b, !.y = v, !.f = NONE])
                                  IN IF v < bt THEN Loop(T1, b + 1, v, b) ELSE Loop(T1, b + 1, bt, bc)
                                  : v \in PickVals(T, "cct", "y", Range(al))}
      IN Loop(S, 1, INF, Cu(S, i).cls)

\* give_service_time_after_preemption / give_individual_a_service_time
GiveServiceTime(S, n, i, K(_)) ==
    LET c == Cu(S, i)
    IN IF c.st = NONE /\ c.stm = 0 THEN
          DrawSvc(S, n, i, LAMBDA T, v : K(SetCu(T, i, [Cu(T, i) EXCEPT !.st = v])))
       ELSE IF c.stm = 3 THEN
          DrawSvc(S, n, i, LAMBDA T, v : K(SetCu(T, i, [Cu(T, i) EXCEPT !.st = v, !.stm = 0])))
       ELSE IF c.stm = 2 THEN K(SetCu(S, i, [c EXCEPT !.st = c.ost, !.stm = 0]))
       ELSE IF c.stm = 1 THEN K(SetCu(S, i, [c EXCEPT !.st = c.left, !.stm = 0]))
       ELSE K(S)    \* numeric service time already present: kept (code falls through)

----------------------------------------------------------------------------
(* choose_next_customer: first priority class with a waiting customer, then  *)
(* the node's discipline.  Result: set of <<id, state>>, id = 0 if nobody.   *)

ChooseNext(S, n) ==
    LET q == Nd(S, n).q
        wq == Seqify([p \in DOMAIN q |-> WaitingOf(S, q[p])])
        ps == {p \in DOMAIN q : wq[p] # <<>>}
        chooseStep(T, i) == Step(T, [St("choose") EXCEPT !.n = n, !.i = i, !.wq = wq])
    IN IF ps = {} THEN {<<0, chooseStep(S, 0)>>}
       ELSE LET w == wq[SetMin(ps)]
                disc == NodeCfg(S, n).disc
                cands == IF disc = "FIFO" THEN {w[1]}
                         ELSE IF disc = "LIFO" THEN {w[Len(w)]}
                         ELSE PickVals(S, "disc", "i", Range(w))
            IN {<<i, chooseStep(Step(S, [St("disc") EXCEPT !.n = n, !.i = i, !.w = w]), i)>> : i \in cands}

----------------------------------------------------------------------------
(* State trackers (ciw/trackers/state_tracker.py): the incremental update rules, transcribed.   *)
(* S.trk = [a, b, m, inc, hl, ht]: a vector, b matrix, m blockage-order matrix, inc next order   *)
(* number, hl/ht length and last timestamp of the history.  Only the fields of the configured    *)
(* tracker kind are used; S.gb is the global order of current blockages <<from, id, to>>.        *)

TrkKind(S) == S.cfg.tracker
AddAt(v, j, d) == [v EXCEPT ![j] = @ + d]
IndexIn(seq, x) == IF InSeq(seq, x) THEN FirstIdx(seq, x) ELSE 0
GroupOf(groups, x) == LET g == {a \in DOMAIN groups : InSeq(groups[a], x)} IN IF g = {} THEN 0 ELSE SetMin(g)

TrkInit(cfg) ==
    LET N == cfg.N
        K == cfg.K
        zeros(m) == Seqify([j \in 1..m |-> 0])
        t == cfg.tracker
    IN [a |-> IF t = "system" THEN <<0>>
              ELSE IF t \in {"node", "matrix"} THEN zeros(N)
              ELSE IF t = "subset" THEN zeros(Len(cfg.observed))
              ELSE IF t = "grouped" THEN zeros(Len(cfg.groups)) ELSE <<>>,
        b |-> IF t = "nodeclass" THEN Seqify([n \in 1..N |-> zeros(K)])
              ELSE IF t = "naive" THEN Seqify([n \in 1..N |-> <<0, 0>>]) ELSE <<>>,
        m |-> IF t = "matrix" THEN Seqify([n \in 1..N |-> Seqify([d \in 1..N |-> <<>>])]) ELSE <<>>,
        inc |-> 1, hl |-> 1, ht |-> 0]

\* population part shared by accept (+1) and release (-1)
TrkPop(S, n, d) ==
    LET t == TrkKind(S)
        tr == S.trk
    IN IF t = "system" THEN [S EXCEPT !.trk.a = AddAt(tr.a, 1, d)]
       ELSE IF t \in {"node", "matrix"} THEN [S EXCEPT !.trk.a = AddAt(tr.a, n, d)]
       ELSE IF t = "subset" THEN
            LET j == IndexIn(S.cfg.observed, n - 1) IN IF j = 0 THEN S ELSE [S EXCEPT !.trk.a = AddAt(tr.a, j, d)]
       ELSE IF t = "grouped" THEN
            LET j == GroupOf(S.cfg.groups, n - 1) IN IF j = 0 THEN S ELSE [S EXCEPT !.trk.a = AddAt(tr.a, j, d)]
       ELSE S

TrkAccept(S, n, i) ==
    LET t == TrkKind(S)
    IN IF t = "none" THEN S
       ELSE IF t = "nodeclass" THEN [S EXCEPT !.trk.b[n] = AddAt(@, Cu(S, i).cls, 1)]
       ELSE IF t = "naive" THEN [S EXCEPT !.trk.b[n] = AddAt(@, 1, 1)]
       ELSE TrkPop(S, n, 1)

TrkBlock(S, n, d, i) ==
    LET t == TrkKind(S)
    IN IF t = "naive" THEN [S EXCEPT !.trk.b[n] = AddAt(AddAt(@, 2, 1), 1, -1)]
       ELSE IF t = "matrix" THEN [S EXCEPT !.trk.m[n][d] = Append(@, S.trk.inc), !.trk.inc = @ + 1]
       ELSE S

\* change_state_release / change_state_renege; cls = the class the tracker decrements
TrkRelease(S, n, d, i, blocked) ==
    LET t == TrkKind(S)
        c == Cu(S, i)
        cls == IF Dev(S, "F6") THEN c.cls ELSE c.pcls
    IN IF t = "none" THEN S
       ELSE IF t = "nodeclass" THEN [S EXCEPT !.trk.b[n] = AddAt(@, cls, -1)]
       ELSE IF t = "naive" THEN [S EXCEPT !.trk.b[n] = AddAt(@, IF blocked THEN 2 ELSE 1, -1)]
       ELSE IF t = "matrix" /\ blocked THEN
            LET S1 == TrkPop(S, n, -1)
                cell == S1.trk.m[n][d]
                pos == cell[1]
                dec(q) == Seqify([j \in DOMAIN q |-> IF q[j] > pos THEN q[j] - 1 ELSE q[j]])
                m1 == [S1.trk.m EXCEPT ![n][d] = Tail(cell)]
            IN [S1 EXCEPT !.trk.inc = @ - 1,
                          !.trk.m = Seqify([a \in DOMAIN m1 |-> Seqify([b \in DOMAIN m1[a] |-> dec(m1[a][b])])])]
       ELSE TrkPop(S, n, -1)

TrkClassChange(S, n, i, old, new) ==
    IF TrkKind(S) = "nodeclass" THEN [S EXCEPT !.trk.b[n] = AddAt(AddAt(@, old, -1), new, 1)] ELSE S

\* the hashed state, for history comparison
TrkState(S) == <<S.trk.a, S.trk.b, S.trk.m>>

----------------------------------------------------------------------------
(* Routing.  Route(S, n, i, f): f = 0 next_node, 1 next_node_for_rerouting,   *)
(* 2 next_node_for_jockeying.  Result: set of <<destination, state>>.         *)

Counts(S) == Seqify([m \in 1..NNodes(S) |-> Nd(S, m).count])
InSvcs(S) == Seqify([m \in 1..NNodes(S) |-> Nd(S, m).insvc])

RouteStep(S, n, i, d, f) ==
    Step(S, [St("route") EXCEPT !.n = n, !.i = i, !.d = d, !.f = f, !.x = Cu(S, i).cls,
                                 !.wq = <<Counts(S), InSvcs(S)>>])

\* random_choice(dests, probs): destinations that may be returned
ProbChoice(S, dests, probs) ==
    LET m == Len(probs)
        sure == probs[m] = DEN /\ \A a \in 1..(m-1) : probs[a] = 0
    IN IF sure THEN {dests[m]}
       ELSE {dests[a] : a \in {b \in 1..m : probs[b] > 0}}
            \cup (IF Dev(S, "F5") /\ probs[1] = 0 THEN {dests[1]} ELSE {})

\* JoinShortestQueue / LoadBalancing over destinations ds
ShortestOf(S, ds, lb) ==
    LET size(m) == IF lb THEN Nd(S, m).count ELSE Nd(S, m).count - Nd(S, m).insvc
        best == SetMin({size(ds[a]) : a \in DOMAIN ds})
    IN SelectSeq(ds, LAMBDA m : size(m) = best)

Route(S, n, i, f) ==
    LET c == Cu(S, i)
        r == S.cfg.route[c.cls]
        N == NNodes(S)
        pick(T, Allowed) == {<<d, RouteStep(T, n, i, d, f)>> : d \in PickVals(T, "route", "d", Allowed)}
    IN IF r.kind = "tm" THEN
          IF f = 2 THEN pick(S, {EXIT})
          ELSE LET row == r.P[n]
                   dests == [a \in 1..(N+1) |-> IF a <= N THEN a ELSE EXIT]
                   probs == [a \in 1..(N+1) |-> IF a <= N THEN row[a] ELSE DEN - SumSeq(row)]
               IN pick(S, ProbChoice(S, dests, probs))
       ELSE IF r.kind = "nr" THEN
          IF f = 2 THEN pick(S, {IF r.routers[n].jock # 0 THEN r.routers[n].jock ELSE EXIT})   \* jockeying destination
          ELSE LET nr == r.routers[n]
               IN IF nr.t = "prob" THEN
                     LET m == Len(nr.dests)
                         dests == [a \in 1..(m+1) |-> IF a <= m THEN nr.dests[a] ELSE EXIT]
                         probs == [a \in 1..(m+1) |-> IF a <= m THEN nr.probs[a] ELSE DEN - SumSeq(nr.probs)]
                     IN pick(S, ProbChoice(S, dests, probs))
                  ELSE IF nr.t = "direct" THEN pick(S, {nr.to})
                  ELSE IF nr.t = "leave" THEN pick(S, {EXIT})
                  ELSE IF nr.t \in {"jsq", "lb"} THEN
                     LET sh == ShortestOf(S, nr.dests, nr.t = "lb")
                     IN IF nr.tie = "order" THEN pick(S, {sh[1]}) ELSE pick(S, Range(sh))
                  ELSE \* cycle: position kept in the router object (S.rt)
                     \* (a routing object given to several classes is one object: they share the position)
                     LET key == IF r.same # 0 THEN r.same ELSE c.cls
                         pos == S.rt[key][n]
                         d == nr.cyc[(pos % Len(nr.cyc)) + 1]
                     IN pick([S EXCEPT !.rt[key][n] = pos + 1], {d})
       ELSE IF r.kind = "pb" THEN
          IF f = 2 THEN pick(S, {EXIT})
          ELSE IF c.route = <<>> THEN pick(S, {EXIT})
          ELSE pick(SetCu(S, i, [c EXCEPT !.route = Tail(c.route)]), {c.route[1][1]})
       ELSE \* "fpb"
          IF f = 2 THEN pick(S, {EXIT})
          ELSE IF c.route = <<>> THEN pick(S, {EXIT})
          ELSE LET sub == c.route[1]
                   al == IF r.choice = "random" THEN Range(sub)
                         ELSE Range(ShortestOf(S, sub, r.choice = "lb"))
               IN UNION {LET left == SelectSeq(sub, LAMBDA m : m # d)
                             nr2 == IF r.rule = "any" \/ left = <<>> THEN Tail(c.route)
                                    ELSE <<left>> \o Tail(c.route)
                         IN {<<d, RouteStep(SetCu(S, i, [c EXCEPT !.route = nr2]), n, i, d, f)>>}
                         : d \in PickVals(S, "route", "d", al)}

----------------------------------------------------------------------------
(* Exit node *)

ExitAccept(S, i, completed) ==
    [DelCu(S, i) EXCEPT !.exit = Append(@, i), !.nexit = @ + 1,
                        !.completed = IF completed THEN @ + 1 ELSE @]

----------------------------------------------------------------------------
(* Interrupted-record writer (priority pre-emption, shift changes, slots) *)
WriteInterruptionRecord(S, n, i, dest) ==
    LET c == Cu(S, i)
        sid == IF IsSlotted(S, n) THEN 0 ELSE c.srv
        r == [Rec(c, n, "interrupted service", S.now, dest, NONE, sid)
                EXCEPT !.wait = c.ss - c.arr, !.ss = c.ss, !.st = c.ost]
    IN WriteRec(S, i, r)

ResetAttrs(c) == [c EXCEPT !.arr = NONE, !.st = NONE, !.stm = 0, !.ss = NONE, !.se = NONE,
                           !.qa = NONE, !.dest = NONE]

----------------------------------------------------------------------------
(* Processor sharing (ciw/processor_sharing.py, PSNode).  cfg.nodes[n].c is the sharing capacity,  *)
(* psR the threshold R.  Time is integer ticks: a division that is not exact cannot be written and  *)
(* is flagged (in traces the tick scale of the trace makes every division of the code exact).       *)

PsCap(S, n) == NodeCfg(S, n).c
PsR(S, n) == NodeCfg(S, n).psR

\* update_all_service_end_dates
RECURSIVE PsUpdateInds(_, _, _, _, _)
PsUpdateInds(S, n, ids, lastocc, nextocc) ==
    IF ids = <<>> THEN {S}
    ELSE LET i == Head(ids)
             c == Cu(S, i)
             R == PsR(S, n)
         IN IF ~c.ws THEN PsUpdateInds(S, n, Tail(ids), lastocc, nextocc)
            ELSE LET period == S.now - c.lupd
                     den == Max2(lastocc, R)
                     num == R * period
                 IN IF lastocc > 0 /\ num % den # 0 THEN Crash(S, "unmodelled:inexact-division")
                    ELSE LET share == IF lastocc > 0 THEN num \div den ELSE 0
                             left2 == Max2(c.left - share, 0)     \* remaining work never goes below zero
                             prod == left2 * Max2(nextocc, R)
                         IN IF prod % R # 0 THEN Crash(S, "unmodelled:inexact-division")
                            ELSE PsUpdateInds(SetCu(S, i, [c EXCEPT !.left = left2, !.se = S.now + (prod \div R), !.lupd = S.now]),
                                              n, Tail(ids), lastocc, nextocc)

PsUpdate(S, n) ==
    LET nd == Nd(S, n)
        nextocc == Min2(nd.count, PsCap(S, n))
    IN Bind(PsUpdateInds(S, n, AllInds(S, n), nd.psocc, nextocc), LAMBDA T : {[T EXCEPT !.nodes[n].psocc = nextocc]})

\* a customer enters service at a PS node: requirement sampled now
PsStart(S, n, i) ==
    LET S1 == SetCu(S, i, [Cu(S, i) EXCEPT !.ss = S.now, !.lupd = S.now])
        S2 == Step(S1, [St("start") EXCEPT !.n = n, !.i = i, !.s = 0, !.x = S.now])
    IN DrawSvc(S2, n, i, LAMBDA T, v : {SetCu(T, i, [Cu(T, i) EXCEPT !.st = v, !.stm = 0, !.left = v, !.ws = TRUE])})

\* PSNode.begin_service_if_possible_accept
PsBeginAccept(S, n, i) ==
    LET S1 == SetCu(S, i, [Cu(S, i) EXCEPT !.arr = S.now, !.ws = FALSE])
    IN IF Nd(S1, n).count <= PsCap(S1, n)
       THEN Bind(PsStart(S1, n, i), LAMBDA T : PsUpdate(T, n))
       ELSE {S1}

\* PSNode.begin_service_if_possible_release
PsBeginRelease(S, n) ==
    LET nd == Nd(S, n)
        cap == PsCap(S, n)
        ids == AllInds(S, n)
        \* the waiting customers (not sharing), in list order; the earliest arrival among them is started
        \* (Python min(): the first minimal one)
        wait == SelectSeq(ids, LAMBDA i : ~Cu(S, i).ws)
        best == SetMin({Cu(S, wait[a]).arr : a \in DOMAIN wait})
        pick == wait[SetMin({a \in DOMAIN wait : Cu(S, wait[a]).arr = best})]
    IN IF cap < INF /\ nd.count >= cap /\ wait # <<>>
       THEN Bind(PsStart(S, n, pick), LAMBDA T : PsUpdate(T, n))
       ELSE PsUpdate(S, n)

----------------------------------------------------------------------------
(* The mutually recursive heart: accept / start / pre-empt / release /        *)
(* release-blocked.                                                           *)

RECURSIVE Accept(_, _, _, _), Release(_, _, _, _, _), ReleaseBlocked(_, _), NodeAccept(_, _, _),
          DecidePreempt(_, _, _), Preempt(_, _, _, _), Reroute(_, _, _)

\* service start of i at node n on server sid (0 = no server object): accept path
StartFresh(S, n, i, sid) ==
    LET S1 == IF sid # 0 THEN Attach(S, n, sid, i) ELSE S
        S2 == SetCu(S1, i, [Cu(S1, i) EXCEPT !.ss = S1.now])
        S3 == Step(S2, [St("start") EXCEPT !.n = n, !.i = i, !.s = sid, !.x = S2.now])
    IN DrawSvc(S3, n, i, LAMBDA T, v :
         LET T1 == SetCu(T, i, [Cu(T, i) EXCEPT !.st = v, !.stm = 0, !.se = T.now + v])
             T2 == [T1 EXCEPT !.nodes[n].insvc = @ + 1]
             T3 == ResetClassChange(T2, n, i)
         IN {IF sid # 0 THEN SetSrv(T3, n, sid, [Srv(T3, n, sid) EXCEPT !.nend = T.now + v]) ELSE T3})

\* begin_service_if_possible_accept
BeginServiceAccept(S, n, i) ==
    LET S1 == SetCu(S, i, [Cu(S, i) EXCEPT !.arr = S.now])
        withPatience ==
            IF ~NodeReneging(S1, n) THEN {S1}
            ELSE LET al == S1.cfg.patS[n][Cu(S1, i).cls]
                 IN IF al = <<>> THEN {SetCu(S1, i, [Cu(S1, i) EXCEPT !.rdate = INF])}
                    ELSE {SetCu(Step(S1, [St("pat") EXCEPT !.n = n, !.x = Cu(S1, i).cls, !.i = i, !.y = v, !.f = S1.now]),
                                i, [Cu(S1, i) EXCEPT !.rdate = S1.now + v])
                          : v \in PickVals(S1, "pat", "y", Range(al))}
        afterCC == Bind(withPatience, LAMBDA T : DecideClassChange(T, n, i))
        serve(T) ==
            IF IsInfC(T, n) THEN StartFresh(T, n, i, 0)
            ELSE UNION {LET j == pr[1]
                            U == pr[2]
                        IN IF j = 0 THEN {U}
                           ELSE LET fr == FindFree(U, n)
                                IN IF fr # 0 THEN StartFresh(U, n, j, fr)
                                   ELSE IF Nd(U, n).c > 0 THEN DecidePreempt(U, n, j)
                                   ELSE {U}
                        : pr \in ChooseNext(T, n)}
    IN Bind(afterCC, serve)

\* Node.accept
NodeAccept(S, n, i) ==
    LET c == Cu(S, i)
        nd == Nd(S, n)
        S1 == Step(S, [St("accept") EXCEPT !.n = n, !.i = i, !.x = nd.count])
        c2 == [c EXCEPT !.loc = n, !.blk = FALSE, !.ocls = c.cls, !.pcls = c.cls, !.pprio = c.prio, !.qa = nd.count]
        S2 == SetCu(S1, i, c2)
        S3 == [S2 EXCEPT !.nodes[n].q[c.prio + 1] = Append(@, i), !.nodes[n].count = @ + 1]
    IN Bind(IF IsPS(S, n) THEN PsBeginAccept(S3, n, i) ELSE BeginServiceAccept(S3, n, i),
            LAMBDA T : {TrkAccept(T, n, i)})

\* accept at node d or at the exit
Accept(S, d, i, completed) ==
    IF d = EXIT THEN {ExitAccept(S, i, completed)} ELSE NodeAccept(S, d, i)

\* decide_preempt: j is the newcomer
DecidePreempt(S, n, j) ==
    LET pp == NodeCfg(S, n).pp
        sv == Nd(S, n).srv
    IN IF pp = 0 THEN {S}
       ELSE IF \E a \in DOMAIN sv : sv[a].cust = 0 THEN Crash(S, "AttributeError:decide_preempt")
       ELSE LET ins == {a \in DOMAIN sv : ~Cu(S, sv[a].cust).blk /\ ~sv[a].off}
                \* a blocked customer is not in service any more; an off-duty server only finishes its customer
            IN IF ins = {} THEN {S}
               ELSE LET least == SetMax({Cu(S, sv[a].cust).prio : a \in ins})
                    IN IF ~(Cu(S, j).prio < least) THEN {S}
                       ELSE LET cands == {a \in ins : Cu(S, sv[a].cust).prio = least}
                                ssOf(a) == Cu(S, sv[a].cust).ss
                                best == SetMax({ssOf(a) : a \in cands})
                                a0 == SetMin({a \in cands : ssOf(a) = best})   \* Python max(): first maximal
                            IN Preempt(S, n, sv[a0].cust, j)

Preempt(S, n, v, j) ==
    LET pp == NodeCfg(S, n).pp
        cv == Cu(S, v)
        sid == cv.srv
        ctx == Seqify([a \in DOMAIN Nd(S, n).srv |->
                  LET s == Nd(S, n).srv[a]
                      c == Cu(S, s.cust)
                  IN <<s.id, s.cust, c.prio, c.ss, IF c.blk THEN 1 ELSE 0>>])
        S0 == Step(S, [St("preempt") EXCEPT !.n = n, !.i = v, !.j = j, !.wq = ctx])
        S1 == SetCu(S0, v, [cv EXCEPT !.ost = cv.st])
        afterVictim ==
            IF pp = 4 THEN Reroute(S1, n, v)
            ELSE LET T1 == WriteInterruptionRecord(S1, n, v, NONE)
                     c1 == Cu(T1, v)
                     T2 == SetCu(T1, v, [c1 EXCEPT !.ss = NONE, !.left = c1.se - T1.now, !.st = NONE,
                                                  !.stm = pp, !.se = NONE,
                                                  !.rdate = INF])      \* its service had started: it no longer reneges
                     T3 == Detach(T2, n, sid, v, 0)   \* exit_date, service_start_date both False: credit 0
                 IN DecideClassChange(T3, n, v)
        \* (finding F23) the victim was served in overtime: detaching it removed the server, and the pre-empting
        \* customer is attached to that removed server all the same: it refers to a server that is not at the node
        attachAny(T) ==
            IF HasSrv(T, n, sid) THEN Attach(T, n, sid, j)
            ELSE LET T0 == Step(T, [St("attach") EXCEPT !.n = n, !.s = sid, !.i = j])
                 IN SetCu(T0, j, [Cu(T0, j) EXCEPT !.srv = DeadRef(sid)])
        takeOver(T) ==
            \* (exhaustive exploration stops here: beyond this point the state is outside every property's domain)
            IF ~HasSrv(T, n, sid) /\ T.mode = "mc" THEN Crash(T, "unmodelled:preempt-offduty-server")
            ELSE
            LET T1 == attachAny(T)
                T2 == SetCu(T1, j, [Cu(T1, j) EXCEPT !.ss = T1.now])
                T3 == Step(T2, [St("start") EXCEPT !.n = n, !.i = j, !.s = sid, !.x = T2.now])
            IN GiveServiceTime(T3, n, j, LAMBDA U :
                 LET cj == Cu(U, j)
                     U1 == SetCu(U, j, [cj EXCEPT !.se = U.now + cj.st])
                     U2 == ResetClassChange(U1, n, j)
                 IN {SetSrv(U2, n, sid, [Srv(U2, n, sid) EXCEPT !.nend = U.now + cj.st])})
    IN Bind(afterVictim, takeOver)

Reroute(S, n, i) ==
    LET S0 == Step(S, [St("reroute") EXCEPT !.n = n, !.i = i])
    IN UNION {LET T1 == WriteInterruptionRecord(pr[2], n, i, pr[1])
              IN Release(T1, n, i, pr[1], TRUE)
              : pr \in Route(S0, n, i, 1)}

\* begin_interrupted_individuals_service
BeginInterrupted(S, n, sid) ==
    LET i == Nd(S, n).intr[1]
        c == Cu(S, i)
        S1 == IF c.blk
              THEN LET m == c.dest
                   IN [SetCu(S, i, [c EXCEPT !.dest = NONE, !.blk = FALSE])
                         EXCEPT !.nodes[m].bq = RemoveFirst(@, <<n, i>>), !.nodes[m].lbq = @ - 1]
              ELSE S
        S2 == Attach(S1, n, sid, i)
        fin(T) ==
            LET c1 == Cu(T, i)
                T1 == SetCu(T, i, [c1 EXCEPT !.ss = T.now, !.se = T.now + c1.st, !.intr = FALSE])
                T2 == Step(T1, [St("start") EXCEPT !.n = n, !.i = i, !.s = sid, !.x = T.now])
                T3 == SetSrv(T2, n, sid, [Srv(T2, n, sid) EXCEPT !.nend = T.now + c1.st])
            IN {[T3 EXCEPT !.nodes[n].insvc = @ + 1, !.nodes[n].intr = RemoveFirst(@, i),
                           !.nodes[n].nintr = @ - 1]}
        c0 == Cu(S2, i)
    IN \* give_service_time_after_preemption (only the three markers)
       IF c0.stm = 3 THEN DrawSvc(S2, n, i, LAMBDA T, v : fin(SetCu(T, i, [Cu(T, i) EXCEPT !.st = v, !.stm = 0])))
       ELSE IF c0.stm = 2 THEN fin(SetCu(S2, i, [c0 EXCEPT !.st = c0.ost, !.stm = 0]))
       ELSE IF c0.stm = 1 THEN fin(SetCu(S2, i, [c0 EXCEPT !.st = c0.left, !.stm = 0]))
       ELSE Crash(S2, "unmodelled:interrupted-without-marker")

\* start of customer j on server sid: release / shift-change path
StartAfter(S, n, j, sid) ==
    LET T1 == Attach(S, n, sid, j)
        T2 == SetCu(T1, j, [Cu(T1, j) EXCEPT !.ss = T1.now])
        T3 == Step(T2, [St("start") EXCEPT !.n = n, !.i = j, !.s = sid, !.x = T2.now])
    IN GiveServiceTime(T3, n, j, LAMBDA U :
         LET cj == Cu(U, j)
             U1 == SetCu(U, j, [cj EXCEPT !.se = cj.ss + cj.st])
             U2 == [U1 EXCEPT !.nodes[n].insvc = @ + 1]
             U3 == ResetClassChange(U2, n, j)
         IN {SetSrv(U3, n, sid, [Srv(U3, n, sid) EXCEPT !.nend = cj.ss + cj.st])})

\* begin_service_if_possible_release
BeginServiceRelease(S, n, sid) ==
    IF sid = 0 \/ ~HasSrv(S, n, sid) THEN {S}
    ELSE IF Nd(S, n).nintr > 0 THEN BeginInterrupted(S, n, sid)
    ELSE UNION {IF pr[1] = 0 THEN {pr[2]} ELSE StartAfter(pr[2], n, pr[1], sid) : pr \in ChooseNext(S, n)}

Release(S, n, i, d, reroute) ==
    LET c == Cu(S, i)
        nd == Nd(S, n)
        dcount == IF d = EXIT THEN 0 ELSE Nd(S, d).count
        dcap == IF d = EXIT THEN INF ELSE Nd(S, d).cap
        S0 == Step(S, [St("release") EXCEPT !.n = n, !.i = i, !.d = d,
                          !.f = IF reroute THEN 2 ELSE IF c.blk THEN 1 ELSE 0, !.x = dcount, !.y = dcap])
        finite == ~IsInfC(S, n) /\ ~IsSlotted(S, n)
    IN IF ~InSeq(nd.q[c.pprio + 1], i) THEN Crash(S0, "ValueError:release")
       ELSE IF finite /\ c.srv <= 0 /\ ~IsDeadRef(c.srv) THEN Crash(S0, "AttributeError:release")
       ELSE
       LET S1 == [S0 EXCEPT !.nodes[n].q[c.pprio + 1] = RemoveFirst(@, i),
                            !.nodes[n].count = @ - 1, !.nodes[n].insvc = @ - 1]
           qd == nd.count - 1
           sidrec == IF finite THEN (IF IsDeadRef(c.srv) THEN DeadId(c.srv) ELSE c.srv) ELSE 0
           rec == [Rec(c, n, "service", S.now, c.dest, qd, sidrec)
                     EXCEPT !.wait = c.ss - c.arr, !.ss = c.ss, !.st = c.se - c.ss, !.se = c.se,
                            !.tb = S.now - c.se]
           S2 == IF reroute THEN S1 ELSE WriteRec(S1, i, rec)
           S3 == IF finite /\ IsDeadRef(c.srv)
                 THEN \* the removed server object is detached; nothing of the node changes
                      SetCu(DgDetach(Step(S2, [St("detach") EXCEPT !.n = n, !.s = DeadId(c.srv), !.i = i]), n, DeadId(c.srv)), i,
                            [Cu(S2, i) EXCEPT !.srv = 0])
                 ELSE IF finite THEN Detach(S2, n, c.srv, i, S.now - c.ss)
                 ELSE IF IsSlotted(S, n) THEN SetCu(S2, i, [Cu(S2, i) EXCEPT !.srv = 0])
                 ELSE S2
           wasBlocked == c.blk
           S4a == SetCu(S3, i, ResetAttrs(Cu(S3, i)))
           S4b == IF wasBlocked /\ d # EXIT
                  THEN [S4a EXCEPT !.gb = RemoveAt(@, SetMin({a \in DOMAIN S4a.gb : S4a.gb[a][1] = n /\ S4a.gb[a][2] = i} \cup {Len(S4a.gb) + 1}))]
                  ELSE S4a
           S4 == TrkRelease(S4b, n, d, i, wasBlocked)
           freed == IF finite /\ ~IsDeadRef(c.srv) THEN c.srv ELSE 0
           afterRestart == IF reroute THEN {S4}
                           ELSE IF IsPS(S, n) THEN PsBeginRelease(S4, n)
                           ELSE BeginServiceRelease(S4, n, freed)
           afterAccept == Bind(afterRestart, LAMBDA T : Accept(T, d, i, TRUE))
       IN IF reroute THEN afterAccept ELSE Bind(afterAccept, LAMBDA T : ReleaseBlocked(T, n))

ReleaseBlocked(S, m) ==
    LET nd == Nd(S, m)
        S0 == Step(S, [St("rbi") EXCEPT !.n = m, !.x = nd.count, !.y = nd.cap, !.w = Flatten(nd.bq)])
    IN IF ~(nd.lbq > 0 /\ nd.count < nd.cap) THEN {S0}
       ELSE IF nd.bq = <<>> THEN Crash(S0, "IndexError:release_blocked_individual")
       ELSE LET from == nd.bq[1][1]
                i == nd.bq[1][2]
            IN IF ~InSeq(AllInds(S0, from), i) THEN Crash(S0, "ValueError:release_blocked_individual")
               ELSE LET S1 == [S0 EXCEPT !.nodes[m].bq = Tail(@), !.nodes[m].lbq = @ - 1]
                        c == Cu(S1, i)
                        S2 == IF c.intr
                              THEN [Step(SetCu(S1, i, [c EXCEPT !.intr = FALSE, !.ss = c.oss, !.se = c.oss + c.ost]),
                                         [St("ssrestore") EXCEPT !.n = from, !.i = i,
                                                                 !.s = IF IsDeadRef(c.srv) THEN DeadId(c.srv) ELSE Max2(c.srv, 0),
                                                                 !.x = c.oss])
                                      EXCEPT !.nodes[from].intr = RemoveFirst(@, i), !.nodes[from].nintr = @ - 1]
                              ELSE S1
                    IN Release(S2, from, i, m, FALSE)

Block(S, n, i, d) ==
    LET S0 == Step(S, [St("block") EXCEPT !.n = n, !.i = i, !.d = d, !.x = Nd(S, d).count, !.y = Nd(S, d).cap])
        S1 == TrkBlock(SetCu(S0, i, [Cu(S0, i) EXCEPT !.blk = TRUE]), n, d, i)
        S2 == [S1 EXCEPT !.nodes[d].bq = Append(@, <<n, i>>), !.nodes[d].lbq = @ + 1, !.unchecked = TRUE,
                         !.gb = Append(@, <<n, i, d>>)]
    IN DgBlock(S2, n, Cu(S2, i).srv, d)

----------------------------------------------------------------------------
(* Events at a service node *)

\* decide_between_simultaneous_individuals; kind 0 end of service, 1 renege
PickInd(S, n, kind, K(_, _)) ==
    LET cands == Nd(S, n).nei
    IN IF cands = <<>> THEN Crash(S, "IndexError:decide_between_simultaneous_individuals")
       ELSE UNION {K(Step(S, [St("pickind") EXCEPT !.n = n, !.i = i, !.w = cands, !.f = kind]), i)
                   : i \in (IF Len(cands) = 1 THEN {cands[1]} ELSE PickVals(S, "pickind", "i", Range(cands)))}

\* change_customer_class (after service)
ChangeClassAfterService(S, n, i) ==
    LET ccm == NodeCfg(S, n).ccm
        c == Cu(S, i)
    IN IF ccm = <<>> THEN {S}
       ELSE LET K == S.cfg.K
                row == ccm[c.cls]
                al == ProbChoice(S, [a \in 1..K |-> a], row)
            IN {LET c2 == [c EXCEPT !.pcls = c.cls, !.cls = k, !.pprio = c.prio, !.prio = S.cfg.prio[k]]
                IN Step(SetCu(S, i, c2), [St("cchg") EXCEPT !.n = n, !.i = i, !.x = c.cls, !.y = k])
                : k \in PickVals(S, "cchg", "y", al)}

FinishService(S, n) ==
    LET S0 == Step(S, [St("finish") EXCEPT !.n = n])
    IN PickInd(S0, n, 0, LAMBDA T, i :
         Bind(ChangeClassAfterService(T, n, i), LAMBDA U :
           UNION {LET d == pr[1]
                      V == pr[2]
                      c == Cu(V, i)
                      V1 == SetCu(V, i, [c EXCEPT !.dest = d])
                      resetGuard == ~IsInfC(V, n)   \* (the pinned code also required c > 0: finding F7, fixed)
                  IN IF resetGuard /\ ~IsSlotted(V, n) /\ (c.srv <= 0 \/ ~HasSrv(V, n, c.srv))
                     THEN Crash(V1, "AttributeError:finish_service")
                     ELSE LET V2 == IF resetGuard /\ ~IsSlotted(V, n)
                                    THEN SetSrv(V1, n, c.srv, [Srv(V1, n, c.srv) EXCEPT !.nend = INF])
                                    ELSE V1
                          IN IF d = EXIT \/ Nd(V2, d).count < Nd(V2, d).cap
                             THEN Release(V2, n, i, d, FALSE)
                             ELSE {Block(V2, n, i, d)}
                  : pr \in Route(U, n, i, 0)}))

RenegeEvent(S, n) ==
    LET S0 == Step(S, [St("renege") EXCEPT !.n = n])
    IN PickInd(S0, n, 1, LAMBDA T, i :
         LET T1 == SetCu(T, i, [Cu(T, i) EXCEPT !.rdate = INF])
         IN UNION {LET d == pr[1]
                       U == pr[2]
                       c == Cu(U, i)
                       nd == Nd(U, n)
                   IN IF ~InSeq(nd.q[c.pprio + 1], i) THEN Crash(U, "ValueError:renege")
                      ELSE LET U0 == [U EXCEPT !.nodes[n].q[c.pprio + 1] = RemoveFirst(@, i),
                                               !.nodes[n].count = @ - 1]
                               U1 == IF Dynamic(U0) THEN FindNextClassChange(U0, n) ELSE U0
                               rec == [Rec(c, n, "renege", U.now, c.dest, nd.count - 1, NONE)
                                         EXCEPT !.wait = U.now - c.arr]
                               U2 == WriteRec(U1, i, rec)
                               U3 == TrkRelease(SetCu(U2, i, ResetAttrs(Cu(U2, i))), n, d, i, FALSE)
                           IN Bind(Accept(U3, d, i, FALSE), LAMBDA V : ReleaseBlocked(V, n))
                   : pr \in Route(T1, n, i, 2)})

----------------------------------------------------------------------------
(* Server schedules *)

\* k-th value (k >= 1) of Schedule.get_schedule_generator: <<date, number>>
SchedGen(boundaries, values, offset, k) ==
    LET m == Len(boundaries)
        idx == k - 1
    IN <<offset + boundaries[(idx % m) + 1] + (idx \div m) * boundaries[m], values[(k % m) + 1]>>

\* interrupt_service (pre-emptive shift end, capacitated pre-emptive slots)
InterruptService(S, n, i, pre) ==
    LET c == Cu(S, i)
        S0 == Step(S, [St("interrupt") EXCEPT !.n = n, !.i = i])
        S1 == SetCu(S0, i, [c EXCEPT !.ost = c.st])
    IN IF pre = 4 THEN Reroute(S1, n, i)
       ELSE LET S2 == [S1 EXCEPT !.nodes[n].intr = Append(@, i), !.nodes[n].nintr = @ + 1]
                S3 == SetCu(S2, i, [Cu(S2, i) EXCEPT !.intr = TRUE])
                S4 == WriteInterruptionRecord(S3, n, i, NONE)
                c4 == Cu(S4, i)
                S5 == SetCu(S4, i, [c4 EXCEPT !.oss = c4.ss, !.ss = NONE,
                                              !.left = (IF c4.se = NONE THEN 0 ELSE c4.se) - S4.now,
                                              !.st = NONE, !.stm = pre, !.se = NONE])
            IN {[S5 EXCEPT !.nodes[n].insvc = @ - 1]}

\* stable sort of ids by (priority, arrival date) ascending
SortByPrioArr(S, ids) ==
    LET key(i) == <<Cu(S, i).prio, Cu(S, i).arr>>
        Less(a, b) == LET ka == key(ids[a])
                          kb == key(ids[b])
                      IN ka[1] < kb[1] \/ (ka[1] = kb[1] /\ ka[2] < kb[2])
                         \/ (ka = kb /\ a < b)
        rank(a) == Cardinality({b \in DOMAIN ids : Less(b, a)}) + 1
    IN Seqify([j \in DOMAIN ids |-> ids[CHOOSE a \in DOMAIN ids : rank(a) = j]])

RECURSIVE InterruptAll(_, _, _, _), KillAll(_, _, _), ServeFree(_, _, _)

\* take_servers_off_duty, pre-emptive: every attached customer is interrupted (server list order)
InterruptAll(S, n, sids, pre) ==
    IF sids = <<>> THEN {S}
    ELSE LET sid == Head(sids)
             S1 == IF HasSrv(S, n, sid) THEN SetSrv(S, n, sid, [Srv(S, n, sid) EXCEPT !.send = S.now]) ELSE S
             cust == IF HasSrv(S1, n, sid) THEN Srv(S1, n, sid).cust ELSE 0
         IN IF cust = 0 THEN InterruptAll(S1, n, Tail(sids), pre)
            ELSE Bind(InterruptService(S1, n, cust, pre), LAMBDA T : InterruptAll(T, n, Tail(sids), pre))

KillAll(S, n, sids) ==
    IF sids = <<>> THEN S
    ELSE KillAll(IF HasSrv(S, n, Head(sids)) THEN KillServer(S, n, Head(sids)) ELSE S, n, Tail(sids))

\* begin_service_if_possible_change_shift: servers free at entry, in list order
ServeFree(S, n, sids) ==
    IF sids = <<>> THEN {S}
    ELSE LET sid == Head(sids)
             next == IF Nd(S, n).nintr > 0 THEN BeginInterrupted(S, n, sid)
                     ELSE UNION {IF pr[1] = 0 THEN {pr[2]} ELSE StartAfter(pr[2], n, pr[1], sid) : pr \in ChooseNext(S, n)}
         IN Bind(next, LAMBDA T : ServeFree(T, n, Tail(sids)))

ShiftChange(S, n) ==
    LET sc == NodeCfg(S, n).sched
        nd == Nd(S, n)
        S0 == Step(S, [St("shift") EXCEPT !.n = n])
        \* Schedule.get_next_shift
        k == nd.shi + 1
        g == SchedGen(sc.ends, sc.nums, sc.off, k)
        newc == nd.shc
        S1 == [S0 EXCEPT !.nodes[n].c = newc, !.nodes[n].shd = g[1], !.nodes[n].shc = g[2], !.nodes[n].shi = k]
        sids == Seqify([j \in DOMAIN nd.srv |-> nd.srv[j].id])
        offduty ==
            IF sc.pre = 0 THEN
               \* non-pre-emptive: busy servers finish their customer (overtime), idle ones leave now
               LET marked == [S1 EXCEPT !.nodes[n].srv =
                                 Seqify([j \in DOMAIN nd.srv |-> [nd.srv[j] EXCEPT !.send = S.now, !.off = nd.srv[j].busy]])]
                   idle == SelectSeq(sids, LAMBDA sid : ~Srv(S1, n, sid).busy)
               IN {KillAll(marked, n, idle)}
            ELSE Bind(InterruptAll(S1, n, sids, sc.pre), LAMBDA T :
                   LET T1 == [T EXCEPT !.nodes[n].intr = SortByPrioArr(T, @)]
                   IN {KillAll(T1, n, sids)})
        addServers(T) ==
            LET h == Nd(T, n).hid
                T1 == Step(T, [St("addsrv") EXCEPT !.n = n, !.x = newc])
                fresh == Seqify([j \in 1..newc |-> [id |-> h + j, cust |-> 0, busy |-> FALSE, off |-> FALSE, nend |-> INF,
                                                    start |-> T.now, bt |-> 0, btw |-> NONE, send |-> NONE]])
            IN [T1 EXCEPT !.nodes[n].srv = @ \o fresh, !.nodes[n].hid = h + newc]
        serve(T) ==
            LET sv == Nd(T, n).srv
                free == SelectSeq(Seqify([j \in DOMAIN sv |-> sv[j].id]), LAMBDA sid : ~Srv(T, n, sid).busy)
            IN ServeFree(T, n, free)
    IN Bind(offduty, LAMBDA T : serve(addServers(T)))

----------------------------------------------------------------------------
(* Slotted services *)

\* k-th slot (k >= 1): <<date, size>>
SlotGen(sl, k) ==
    LET m == Len(sl.slots)
        idx == k - 1
    IN <<sl.off + sl.slots[(idx % m) + 1] + (idx \div m) * sl.slots[m], sl.sizes[(idx % m) + 1]>>

\* ids sorted by (priority, arrival) DESCENDING, ties in original order (sorted(..., reverse=True))
SortDesc(S, ids) ==
    LET key(i) == <<Cu(S, i).prio, Cu(S, i).arr>>
        Less(a, b) == LET ka == key(ids[a])
                          kb == key(ids[b])
                      IN ka[1] > kb[1] \/ (ka[1] = kb[1] /\ ka[2] > kb[2])
                         \/ (ka = kb /\ a < b)
        rank(a) == Cardinality({b \in DOMAIN ids : Less(b, a)}) + 1
    IN Seqify([j \in DOMAIN ids |-> ids[CHOOSE a \in DOMAIN ids : rank(a) = j]])

RECURSIVE InterruptSeq(_, _, _, _), SlotStarts(_, _, _)
InterruptSeq(S, n, ids, pre) ==
    IF ids = <<>> THEN {S}
    ELSE Bind(InterruptService(S, n, Head(ids), pre), LAMBDA T : InterruptSeq(T, n, Tail(ids), pre))

SlotStarts(S, n, k) ==
    IF k = 0 THEN {S}
    ELSE LET nd == Nd(S, n)
             start(T, i) ==
                 LET T1 == SetCu(T, i, [Cu(T, i) EXCEPT !.ss = T.now])
                     T2 == Step(T1, [St("start") EXCEPT !.n = n, !.i = i, !.s = 0, !.x = T.now])
                 IN GiveServiceTime(T2, n, i, LAMBDA U :
                      LET ci == Cu(U, i)
                          U1 == SetCu(U, i, [ci EXCEPT !.se = U.now + ci.st, !.srv = -1])
                          U2 == [U1 EXCEPT !.nodes[n].insvc = @ + 1]
                      IN {ResetClassChange(U2, n, i)})
             one == IF nd.nintr > 0
                    THEN LET i == nd.intr[1]
                             S1 == [S EXCEPT !.nodes[n].intr = Tail(@), !.nodes[n].nintr = @ - 1]
                         IN start(SetCu(S1, i, [Cu(S1, i) EXCEPT !.intr = FALSE]), i)
                    ELSE UNION {IF pr[1] = 0 THEN {pr[2]} ELSE start(pr[2], pr[1]) : pr \in ChooseNext(S, n)}
         IN Bind(one, LAMBDA T : SlotStarts(T, n, k - 1))

SlottedService(S, n) ==
    LET sl == NodeCfg(S, n).slot
        nd == Nd(S, n)
        size == nd.shc
        S0 == Step(S, [St("slot") EXCEPT !.n = n, !.x = size, !.y = nd.insvc, !.f = nd.count, !.w = nd.intr])
        num == IF sl.cap THEN Min2(Max2(size - nd.insvc, 0), nd.count) ELSE Min2(size, nd.count)
        toInterrupt ==
            IF sl.cap /\ sl.pre # 0 /\ nd.insvc - size > 0
            THEN LET insv == SelectSeq(AllInds(S0, n), LAMBDA i : Cu(S0, i).ss # NONE)
                     srt == SortDesc(S0, insv)
                 IN SubSeq(srt, 1, Min2(nd.insvc - size, Len(srt)))
            ELSE <<>>
        g == SlotGen(sl, nd.shi + 1)
    IN Bind(Bind(InterruptSeq(S0, n, toInterrupt, sl.pre), LAMBDA T : SlotStarts(T, n, num)),
            LAMBDA T : {[T EXCEPT !.nodes[n].shd = g[1], !.nodes[n].shc = g[2], !.nodes[n].shi = nd.shi + 1]})

----------------------------------------------------------------------------
(* Class change while waiting *)

ClassChangeEvent(S, n) ==
    LET nd == Nd(S, n)
    IN IF nd.nei = <<>> THEN Crash(S, "AttributeError:change_customer_class_while_waiting")
       ELSE
       IF ~HasCu(S, nd.nei[1]) THEN Crash(S, "stale:next_class_change_ind")
       ELSE
       LET i == nd.nei[1]
           c == Cu(S, i)
           S0 == Step(S, [St("ccw") EXCEPT !.n = n, !.i = i])
           newp == S.cfg.prio[c.ncls]
           S1 == SetCu(S0, i, [c EXCEPT !.cls = c.ncls, !.prio = newp])
           moved == IF newp # c.pprio
                    THEN IF ~InSeq(nd.q[c.pprio + 1], i) THEN Crash(S1, "ValueError:change_priority_queue")
                         ELSE DecidePreempt([S1 EXCEPT !.nodes[n].q[c.pprio + 1] = RemoveFirst(@, i),
                                                       !.nodes[n].q[newp + 1] = Append(@, i)], n, i)
                    ELSE {S1}
       IN Bind(moved, LAMBDA T :
             LET ci == Cu(T, i)
                 T1 == TrkClassChange(T, n, i, ci.pcls, ci.cls)
             IN DecideClassChange(SetCu(T1, i, [ci EXCEPT !.pcls = ci.cls, !.pprio = ci.prio]), n, i))

----------------------------------------------------------------------------
(* External arrivals *)

\* ArrivalNode.find_next_event_date: first minimum in node-then-class order
ArrNext(S) ==
    LET N == NNodes(S)
        K == S.cfg.K
        RECURSIVE Scan(_, _, _, _, _)
        Scan(n, k, bd, bn, bk) ==
            IF n > N THEN <<bd, bn, bk>>
            ELSE IF k > K THEN Scan(n + 1, 1, bd, bn, bk)
            ELSE IF S.arr[n][k] < bd THEN Scan(n, k + 1, S.arr[n][k], n, k)
            ELSE Scan(n, k + 1, bd, bn, bk)
        r == Scan(1, 1, INF, 0, 0)
    IN [S EXCEPT !.and = r[1], !.ann = r[2], !.anc = r[3]]

\* one member of an arriving batch
Spawn(S, n, k) ==
    LET id == S.created + 1
        c0 == NewCu(id, k, S.cfg.prio[k])
        S1 == [S EXCEPT !.created = id, !.cu = Append(@, c0)]
        r == S.cfg.route[k]
        withRoute ==
            IF r.kind \in {"pb", "fpb"}
            THEN {LET rt == r.routes[j + 1]
                  IN SetCu(Step(S1, [St("routefn") EXCEPT !.i = id, !.x = k, !.y = j]), id, [c0 EXCEPT !.route = rt])
                  : j \in PickVals(S1, "routefn", "y", 0..(Len(r.routes) - 1))}
            ELSE {S1}
        admit(T) ==
            LET nd == Nd(T, n)
                syspop == (T.created - 1) - T.nexit
                T1 == Step(T, [St("admit") EXCEPT !.n = n, !.i = id, !.x = nd.count, !.y = syspop, !.f = k])
                c == Cu(T1, id)
                brec(type) == [Rec(c, n, type, T.now, NONE, NONE, NONE) EXCEPT !.arr = T.now, !.qa = nd.count]
            IN IF nd.count >= nd.cap \/ syspop >= T.cfg.syscap THEN
                  LET T2 == Step(T1, [St("reject") EXCEPT !.n = n, !.i = id, !.x = nd.count])
                  IN {ExitAccept(WriteRec(T2, id, brec("rejection")), id, FALSE)}
               ELSE
                  LET tab == NodeCfg(T, n).bk[k]
                      send(U) == NodeAccept([Step(U, [St("send") EXCEPT !.n = n, !.i = id])
                                               EXCEPT !.accepted = @ + 1], n, id)
                  IN IF tab = <<>> THEN send(T1)
                     ELSE LET p == tab[Min2(nd.count, Len(tab) - 1) + 1]
                          IN UNION {LET U1 == Step(T1, [St("bu") EXCEPT !.x = u])
                                        U2 == Step(U1, [St("bfn") EXCEPT !.n = n, !.i = id, !.x = nd.count, !.y = p])
                                    IN IF u * DEN < p * U20
                                       THEN LET U3 == Step(U2, [St("baulk") EXCEPT !.n = n, !.i = id, !.x = nd.count])
                                            IN {ExitAccept(WriteRec(U3, id, brec("baulk")), id, FALSE)}
                                       ELSE send(U2)
                                    : u \in PickVals(T1, "bu", "x", UGrid(T1))}
    IN Bind(withRoute, admit)

RECURSIVE SpawnLoop(_, _, _, _)
SpawnLoop(S, n, k, b) ==
    IF b = 0 THEN {S} ELSE Bind(Spawn(S, n, k), LAMBDA T : SpawnLoop(T, n, k, b - 1))

ArrivalEvent(S) ==
    LET n == S.ann
        k == S.anc
        S0 == Step(S, [St("arrival") EXCEPT !.n = n, !.x = k])
    IN UNION {LET S1 == Step(S0, [St("batch") EXCEPT !.n = n, !.x = k, !.y = b, !.f = S.now])
                  S2 == Step(S1, [St("bsize") EXCEPT !.n = n, !.x = k, !.y = b])
              IN Bind(SpawnLoop(S2, n, k, b), LAMBDA T :
                   {ArrNext([Step(T, [St("ia") EXCEPT !.n = n, !.x = k, !.y = v, !.f = T.now])
                               EXCEPT !.arr[n][k] = @ + v])
                    : v \in PickVals(T, "ia", "y", Range(T.cfg.arrS[n][k]))})
              : b \in PickVals(S0, "batch", "y", Range(S.cfg.batchS[n][k]))}

----------------------------------------------------------------------------
(* update_next_event_date / decide_next_event *)

\* end-of-service candidates at finite-server, non-slotted nodes: servers with minimal date
EndWithServer(S, n) ==
    LET sv == Nd(S, n).srv
        RECURSIVE Scan(_, _, _)
        Scan(j, bd, inds) ==
            IF j > Len(sv) THEN <<inds, bd>>
            ELSE IF sv[j].nend < bd THEN Scan(j + 1, sv[j].nend, <<sv[j].cust>>)
            ELSE IF sv[j].nend = bd /\ bd < INF THEN Scan(j + 1, bd, Append(inds, sv[j].cust))
            ELSE Scan(j + 1, bd, inds)
    IN Scan(1, INF, <<>>)

\* ... at infinite-server / slotted / PS nodes: customers not blocked with minimal end date >= now
EndWithoutServer(S, n) ==
    LET ids == AllInds(S, n)
        RECURSIVE Scan(_, _, _)
        Scan(j, bd, inds) ==
            IF j > Len(ids) THEN <<inds, bd>>
            ELSE LET c == Cu(S, ids[j])
                     se == IF c.se = NONE THEN -1 ELSE c.se      \* a customer that has not started is never a candidate (finding F14, fixed)
                 IN IF ~c.blk /\ se >= S.now
                    THEN IF se < bd THEN Scan(j + 1, se, <<c.id>>)
                         ELSE IF se = bd /\ bd < INF THEN Scan(j + 1, bd, Append(inds, c.id))
                         ELSE Scan(j + 1, bd, inds)
                    ELSE Scan(j + 1, bd, inds)
    IN Scan(1, INF, <<>>)

RenegeCands(S, n) ==
    LET ids == AllInds(S, n)
        RECURSIVE Scan(_, _, _)
        Scan(j, bd, inds) ==
            IF j > Len(ids) THEN <<inds, bd>>
            ELSE LET c == Cu(S, ids[j])
                     rd == IF c.rdate = NONE THEN INF ELSE c.rdate
                 IN IF rd < bd /\ c.srv = 0 THEN Scan(j + 1, rd, <<c.id>>)
                    ELSE IF rd = bd /\ c.srv = 0 /\ bd < INF THEN Scan(j + 1, bd, Append(inds, c.id))
                    ELSE Scan(j + 1, bd, inds)
    IN Scan(1, INF, <<>>)

NoEvent == <<<<>>, INF>>

UpdateNextEvent(S, n) ==
    LET nd == Nd(S, n)
        withoutSrv == IsSlotted(S, n) \/ IsInfC(S, n)
        es == IF withoutSrv THEN EndWithoutServer(S, n) ELSE EndWithServer(S, n)
        hasEs == es[2] < INF \/ (withoutSrv /\ es[1] # <<>>)
        ren == IF ~IsInfC(S, n) /\ NodeReneging(S, n) THEN RenegeCands(S, n) ELSE NoEvent
        cc == IF Dynamic(S) /\ ~IsInfC(S, n)
              THEN <<IF nd.ncci = 0 THEN <<>> ELSE <<nd.ncci>>, nd.nccd>> ELSE NoEvent
        sh == IF IsSched(S, n) THEN <<<<>>, nd.shd>> ELSE NoEvent
        sl == IF IsSlotted(S, n) THEN <<<<>>, nd.shd>> ELSE NoEvent
        multi == NodeReneging(S, n) \/ Dynamic(S) \/ IsSched(S, n) \/ IsSlotted(S, n)
        order == << <<"slotted_service", sl>>, <<"shift_change", sh>>, <<"end_service", es>>,
                    <<"class_change", cc>>, <<"renege", ren>> >>
        RECURSIVE Decide(_, _, _, _)
        Decide(j, bd, bt, be) ==
            IF j > Len(order) THEN <<bt, be>>
            ELSE IF order[j][2][2] < bd THEN Decide(j + 1, order[j][2][2], order[j][1], order[j][2])
            ELSE Decide(j + 1, bd, bt, be)
        dec == Decide(1, INF, "none", NoEvent)
    IN IF multi
       THEN [S EXCEPT !.nodes[n].ned = dec[2][2], !.nodes[n].net = dec[1], !.nodes[n].nei = dec[2][1]]
       ELSE [S EXCEPT !.nodes[n].ned = es[2], !.nodes[n].net = "end_service", !.nodes[n].nei = es[1]]

RECURSIVE UpdateAll(_, _)
UpdateAll(S, n) == IF n > NNodes(S) THEN S ELSE UpdateAll(UpdateNextEvent(S, n), n + 1)

----------------------------------------------------------------------------
(* The event loop *)

\* active nodes whose next event date is minimal: 0 = arrival node
MinDate(S) == SetMin({S.and} \cup {Nd(S, n).ned : n \in 1..NNodes(S)})
ArgMin(S) == (IF S.and = MinDate(S) THEN {0} ELSE {}) \cup {n \in 1..NNodes(S) : Nd(S, n).ned = MinDate(S)}

EvLabel(S, a) ==
    IF a = 0 THEN [kind |-> "arrival", node |-> S.ann, cls |-> S.anc, date |-> S.and]
    ELSE [kind |-> Nd(S, a).net, node |-> a, cls |-> 0, date |-> Nd(S, a).ned]

\* have_event of active node a at its date, then update_next_event_date of every node
ExecEvent(S, a) ==
    LET lab == EvLabel(S, a)
        S0 == [S EXCEPT !.now = lab.date, !.steps = <<>>, !.recs = <<>>, !.ev = lab]
        body == IF a = 0 THEN ArrivalEvent(S0)
                ELSE IF lab.kind = "end_service" THEN FinishService(S0, a)
                ELSE IF lab.kind = "renege" THEN RenegeEvent(S0, a)
                ELSE IF lab.kind = "shift_change" THEN ShiftChange(S0, a)
                ELSE IF lab.kind = "slotted_service" THEN SlottedService(S0, a)
                ELSE IF lab.kind = "class_change" THEN ClassChangeEvent(S0, a)
                ELSE Crash(S0, "unmodelled:" \o lab.kind)
        \* StateTracker.timestamp() after each event of simulate_until_max_time / max_customers
        stamp(T) == IF T.cfg.stop = "deadlock" \/ T.cfg.tracker = "none" \/ T.trkprev = TrkState(T) THEN T
                    ELSE [T EXCEPT !.trk.hl = @ + 1, !.trk.ht = T.now, !.trkprev = TrkState(T)]
        \* simulate_until_deadlock: after the event, if a blockage happened, ask the detector
        detect(T) == IF T.cfg.stop = "deadlock" /\ T.unchecked
                     THEN LET k == HasDetector(T) /\ Knot(T.dg)
                          IN [Step(T, [St("ddl") EXCEPT !.x = IF k THEN 1 ELSE 0]) EXCEPT !.unchecked = FALSE, !.dl = k]
                     ELSE T
    IN {IF Ok(T) THEN detect(stamp(UpdateAll(T, 1))) ELSE T : T \in body}

\* all successors by one event (model-checking mode: any tie-break)
Event(S) == UNION {ExecEvent(S, a) : a \in ArgMin(S)}

----------------------------------------------------------------------------
(* A stop of the simulation: simulate_until_max_time(T) returns when the next event is not before T.  *)
(* wrap_up_servers(T) credits the part of every service in progress to its server (remembering the    *)
(* value before, so that the credit is taken back when the run continues); nothing else changes.      *)
(* The clock is left at the date of the next event.                                                   *)

RECURSIVE WrapUpServers(_, _, _, _)
WrapUpServers(S, n, j, T) ==
    IF j > Len(Nd(S, n).srv) THEN S
    ELSE LET s == Nd(S, n).srv[j]
         IN IF ~s.busy \/ ~HasCu(S, s.cust) \/ Cu(S, s.cust).ss = NONE THEN WrapUpServers(S, n, j + 1, T)
            ELSE LET before == IF s.btw = NONE THEN s.bt ELSE s.btw
                 IN WrapUpServers([S EXCEPT !.nodes[n].srv[j] = [s EXCEPT !.btw = before, !.bt = before + (T - Cu(S, s.cust).ss)]],
                                  n, j + 1, T)

RECURSIVE WrapUpNodes(_, _, _)
WrapUpNodes(S, n, T) ==
    IF n > NNodes(S) THEN S
    ELSE WrapUpNodes(IF IsInfC(S, n) THEN S ELSE WrapUpServers(S, n, 1, T), n + 1, T)

PauseStep(S, T) ==
    LET S1 == WrapUpNodes(S, 1, T)
    IN [S1 EXCEPT !.now = MinDate(S), !.steps = <<>>, !.recs = <<>>,
                  !.ev = [kind |-> "pause", node |-> 0, cls |-> 0, date |-> T]]

----------------------------------------------------------------------------
(* Initial state from a configuration *)

InitNode(cfg, n) ==
    LET nc == cfg.nodes[n]
        c0 == IF nc.kind \in {"sched", "slot"} THEN 0 ELSE nc.c     \* value at construction
        c == IF nc.kind = "ps" THEN INF ELSE c0                     \* PSNode: c := inf afterwards
        nsrv == IF c >= INF THEN 0 ELSE c
    IN [c |-> c, cap |-> IF nc.qcap >= INF \/ c0 >= INF THEN INF ELSE nc.qcap + c0,
        q |-> [p \in 1..cfg.P |-> <<>>], count |-> 0, insvc |-> 0,
        srv |-> [j \in 1..nsrv |-> [id |-> j, cust |-> 0, busy |-> FALSE, off |-> FALSE, nend |-> INF,
                                     start |-> 0, bt |-> 0, btw |-> NONE, send |-> NONE]],
        hid |-> c0, bq |-> <<>>, lbq |-> 0, intr |-> <<>>, nintr |-> 0,
        ned |-> IF nc.kind = "sched" THEN nc.sched.off
                ELSE IF nc.kind = "slot" THEN SlotGen(nc.slot, 1)[1] ELSE INF,
        net |-> IF nc.kind = "sched" THEN "shift_change" ELSE IF nc.kind = "slot" THEN "slotted_service" ELSE "none",
        nei |-> <<>>,
        shd |-> IF nc.kind = "sched" THEN nc.sched.off ELSE IF nc.kind = "slot" THEN SlotGen(nc.slot, 1)[1] ELSE INF,
        shc |-> IF nc.kind = "sched" THEN nc.sched.nums[1] ELSE IF nc.kind = "slot" THEN SlotGen(nc.slot, 1)[2] ELSE 0,
        shi |-> IF nc.kind = "slot" THEN 1 ELSE 0,
        ot |-> <<>>, nccd |-> INF, ncci |-> 0, psocc |-> 0]

\* states after ArrivalNode.initialise: one inter-arrival draw per stream with a distribution
RECURSIVE InitArr(_, _, _)
InitArr(S, n, k) ==
    IF n > S.cfg.N THEN {ArrNext(S)}
    ELSE IF k > S.cfg.K THEN InitArr(S, n + 1, 1)
    ELSE IF S.cfg.arrS[n][k] = <<>> THEN InitArr([S EXCEPT !.arr[n][k] = INF], n, k + 1)
    ELSE UNION {InitArr([Step(S, [St("ia") EXCEPT !.n = n, !.x = k, !.y = v, !.f = 0]) EXCEPT !.arr[n][k] = v], n, k + 1)
                : v \in PickVals(S, "ia", "y", Range(S.cfg.arrS[n][k]))}

InitStates(cfg, mode, script) ==
    LET S0 == [now |-> 0, created |-> 0, accepted |-> 0, completed |-> 0, nexit |-> 0,
               arr |-> [n \in 1..cfg.N |-> [k \in 1..cfg.K |-> INF]],
               and |-> INF, ann |-> 0, anc |-> 0,
               nodes |-> [n \in 1..cfg.N |-> InitNode(cfg, n)],
               cu |-> <<>>, exit |-> <<>>,
               steps |-> <<>>, recs |-> <<>>, ev |-> [kind |-> "init", node |-> 0, cls |-> 0, date |-> 0],
               unchecked |-> FALSE, trk |-> TrkInit(cfg), gb |-> <<>>, dg |-> {}, dl |-> FALSE, pz |-> 1,
               trkprev |-> <<TrkInit(cfg).a, TrkInit(cfg).b, TrkInit(cfg).m>>,
               rt |-> [k \in 1..cfg.K |-> [n \in 1..cfg.N |-> 0]],
               cfg |-> cfg, mode |-> mode, script |-> script, err |-> ""]
    IN InitArr(S0, 1, 1)
=============================================================================
