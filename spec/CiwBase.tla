------------------------------ MODULE CiwBase ------------------------------
(* Vocabulary shared by the specification, the property definitions and the  *)
(* trace validator: sentinels, sequence helpers, the micro-step record.      *)
EXTENDS Integers, Sequences, FiniteSets, TLC

NONE == -9            \* Python `False`/nan placeholders in date and id fields
INF  == 1000000000    \* float('inf')
EXIT == -1            \* id of the exit node
DEN  == 4             \* probabilities are numerators over DEN
U20  == 1048576       \* uniform draws are logged as floor(u * 2^20)

Range(s) == {s[j] : j \in DOMAIN s}
Min2(a, b) == IF a <= b THEN a ELSE b
Max2(a, b) == IF a >= b THEN a ELSE b
SetMin(A) == CHOOSE a \in A : \A b \in A : a <= b
SetMax(A) == CHOOSE a \in A : \A b \in A : a >= b

RECURSIVE SumSeq(_)
SumSeq(s) == IF s = <<>> THEN 0 ELSE Head(s) + SumSeq(Tail(s))

RECURSIVE Flatten(_)
Flatten(ss) == IF ss = <<>> THEN <<>> ELSE Head(ss) \o Flatten(Tail(ss))

\* force a lazily defined function 1..n -> X into an explicit tuple (TLC state serialisation)
Seqify(f) == SubSeq(f, 1, Len(f))

InSeq(s, v) == \E j \in DOMAIN s : s[j] = v
FirstIdx(s, v) == CHOOSE j \in DOMAIN s : s[j] = v /\ \A m \in 1..(j-1) : s[m] # v
RemoveAt(s, j) == SubSeq(s, 1, j-1) \o SubSeq(s, j+1, Len(s))
\* Python list.remove: first occurrence.  Total: an absent element leaves the sequence unchanged (operators that
\* must model Python's ValueError test InSeq themselves); the specification must never make TLC fail on a log
RemoveFirst(s, v) == IF InSeq(s, v) THEN RemoveAt(s, FirstIdx(s, v)) ELSE s
FilterSeq(s, Test(_)) == SelectSeq(s, Test)
CountSeq(s, Test(_)) == Len(SelectSeq(s, Test))
Last(s) == s[Len(s)]
IsPrefixOf(s, t) == Len(s) <= Len(t) /\ SubSeq(t, 1, Len(s)) = s
NoDup(s) == \A a, b \in DOMAIN s : a # b => s[a] # s[b]

\* date addition with infinity (float('inf') + x = inf)
AddT(a, b) == IF a >= INF \/ b >= INF THEN INF ELSE a + b

\* the generic micro-step record (all fields always present, type-homogeneous)
St(k) == [k |-> k, n |-> 0, i |-> 0, j |-> 0, d |-> 0, s |-> 0, f |-> 0,
          x |-> 0, y |-> 0, w |-> <<>>, wq |-> <<>>]
=============================================================================
