------------------------------ MODULE CiwHist ------------------------------
(***************************************************************************)
(* Process histories (C15).  One Python process builds Networks, builds    *)
(* Simulations from them and advances them in any interleaving.  The       *)
(* question C15 asks is which *mutable objects* a Simulation reads while   *)
(* it runs: the outcome of a simulation is a function of the observations  *)
(* it makes of those objects and of the random stream.  The model keeps,   *)
(* per object, how many samples it has handed out (`pos`) and which        *)
(* simulation initialised it last (`own`, routers keep a back-reference to *)
(* "their" simulation); every segment of a run observes the objects it     *)
(* uses and advances them.                                                 *)
(*                                                                         *)
(* Ideal design (Dev = {}): every Simulation owns private copies of every  *)
(* stateful object of its Network.  NonInterference then says that each    *)
(* simulation observes exactly what it would observe if it were the only   *)
(* thing the process ever ran, whatever else is built or run in between.   *)
(* A deviation (Dev # {}: the object kind is the Network's own, shared by  *)
(* all its simulations) violates it; TLC exhibits the interleaving.        *)
(*                                                                         *)
(* The global random stream is a process-wide object by design (ciw.seed). *)
(* The statement quantifies over "ciw.seed(s) then build then simulate";   *)
(* the driver therefore gives every simulation its own view of the stream  *)
(* (SwapRng: state saved after each segment and restored before the next), *)
(* which is what makes interleaved histories comparable with solo runs.    *)
(*                                                                         *)
(* Binding: TLC prints every terminal history (`hist`); harness/hist.py    *)
(* executes it operation by operation against the real library in a fresh  *)
(* interpreter and compares each simulation's outcome with its solo run    *)
(* (fresh interpreter, same parameters, seed and stage horizons) through   *)
(* CiwPair!PairFails.                                                      *)
(***************************************************************************)
EXTENDS Integers, Sequences, FiniteSets, TLC, Json

CONSTANTS MaxNets,    \* Network objects built in one history
          MaxSims,    \* Simulation objects built in one history
          Stages,     \* simulate_until_max_time calls per simulation
          NParams,    \* distinct parameter sets (equal ids = equal parameters)
          NSeeds,     \* distinct seeds
          MaxLen,     \* operations per history
          Dev,        \* object kinds that are NOT private to a Simulation (ideal: {})
          SwapRng     \* the driver saves / restores the global stream per simulation

Kinds == {"arr", "svc", "batch", "renege", "cct", "router", "sched"}

VARIABLES nets,   \* nets[n] = parameter-set id of the n-th Network object
          sims,   \* sims[s] = [net, seed, stage, saved, view]
          pos,    \* object -> samples handed out so far (absent = 0)
          own,    \* object -> simulation that initialised it last (absent = 0)
          rng,    \* the process-global random stream [seed, pos]
          hist    \* operations so far

vars == <<nets, sims, pos, own, rng, hist>>

Obj(net, s, k) == IF k \in Dev THEN <<"net", net, k>> ELSE <<"sim", s, k>>
PosOf(o) == IF o \in DOMAIN pos THEN pos[o] ELSE 0
OwnOf(o) == IF o \in DOMAIN own THEN own[o] ELSE 0
Upd(f, D, v(_)) == [o \in (DOMAIN f) \cup D |-> IF o \in D THEN v(o) ELSE f[o]]

Init == /\ nets = <<>> /\ sims = <<>>
        /\ pos = <<>> /\ own = <<>>
        /\ rng = [seed |-> 0, pos |-> 0]
        /\ hist = <<>>

\* what one segment of simulation s (of network net) sees, given the stream it runs on
Observe(net, s, r) == [rng |-> r,
                       objs |-> [k \in Kinds |-> PosOf(Obj(net, s, k))],
                       own |-> OwnOf(Obj(net, s, "router"))]

Used(net, s) == {Obj(net, s, k) : k \in Kinds}

NewNet(p) ==
    /\ Len(nets) < MaxNets
    /\ nets' = Append(nets, p)
    /\ hist' = Append(hist, [op |-> "net", a |-> p, b |-> 0])
    /\ UNCHANGED <<sims, pos, own, rng>>

\* ciw.seed(z); Q = ciw.Simulation(N): the constructor initialises the routers (back-reference) and draws the
\* first arrival dates: it is the first observing segment of the run
NewSim(n, z) ==
    LET s == Len(sims) + 1
        r0 == [seed |-> z, pos |-> 0]
        own1 == Upd(own, {Obj(n, s, "router")}, LAMBDA o : s)
        ob == [rng |-> r0, objs |-> [k \in Kinds |-> PosOf(Obj(n, s, k))],
               own |-> own1[Obj(n, s, "router")]]
        r1 == [r0 EXCEPT !.pos = @ + 1]
    IN /\ Len(sims) < MaxSims
       /\ n \in 1..Len(nets)
       /\ own' = own1
       /\ pos' = Upd(pos, Used(n, s), LAMBDA o : PosOf(o) + 1)
       /\ rng' = r1
       /\ sims' = Append(sims, [net |-> n, seed |-> z, stage |-> 0, saved |-> r1, view |-> <<ob>>])
       /\ hist' = Append(hist, [op |-> "sim", a |-> n, b |-> z])
       /\ UNCHANGED nets

\* Q.simulate_until_max_time(next horizon of s)
Step(s) ==
    LET q == sims[s]
        rin == IF SwapRng THEN q.saved ELSE rng
        ob == Observe(q.net, s, rin)
        rout == [rin EXCEPT !.pos = @ + 1]
    IN /\ q.stage < Stages
       /\ pos' = Upd(pos, Used(q.net, s), LAMBDA o : PosOf(o) + 1)
       /\ rng' = rout
       /\ sims' = [sims EXCEPT ![s] = [q EXCEPT !.stage = @ + 1, !.saved = rout, !.view = Append(@, ob)]]
       /\ hist' = Append(hist, [op |-> "step", a |-> s, b |-> 0])
       /\ UNCHANGED <<nets, own>>

Next == /\ Len(hist) < MaxLen
        /\ \/ \E p \in 1..NParams : NewNet(p)
           \/ \E n \in 1..MaxNets, z \in 1..NSeeds : NewSim(n, z)
           \/ \E s \in 1..Len(sims) : Step(s)

Spec == Init /\ [][Next]_vars

\* what simulation s observes when it is the only thing the process does
Solo(s, j) == [rng |-> [seed |-> sims[s].seed, pos |-> j - 1],
               objs |-> [k \in Kinds |-> j - 1],
               own |-> s]

NonInterference == \A s \in 1..Len(sims) : \A j \in 1..Len(sims[s].view) : sims[s].view[j] = Solo(s, j)

\* consequence the code-level check relies on: equal (parameters, seed, stage) => equal observations
SameInputsSameView ==
    \A s, t \in 1..Len(sims) :
        (nets[sims[s].net] = nets[sims[t].net] /\ sims[s].seed = sims[t].seed)
        => \A j \in 1..Len(sims[s].view) : j \in 1..Len(sims[t].view) =>
              [sims[s].view[j] EXCEPT !.own = 0] = [sims[t].view[j] EXCEPT !.own = 0]

\* the history does not influence enabledness beyond its length: hide it for the exhaustive check
View == <<nets, sims, pos, own, rng, Len(hist)>>

\* terminal histories are printed for the replay (every simulation finished or the length bound reached)
Terminal == Len(hist) = MaxLen \/ (Len(sims) = MaxSims /\ \A s \in 1..Len(sims) : sims[s].stage = Stages)
Export == (Terminal /\ Len(sims) > 0) => PrintT(<<"HIST", ToJson(hist)>>)
=============================================================================
