------------------------------- MODULE CiwMC -------------------------------
(* Model-checking harness: explores Ciw.tla exhaustively for a family of    *)
(* configurations (module MCFamily, generated from scenario JSON) and       *)
(* evaluates the property formulas of CiwProps on every state / transition. *)
EXTENDS Ciw, MCFamily, Json, TLCExt

P == INSTANCE CiwProps

VARIABLE S

Init == S \in UNION {InitStates(c, "mc", <<>>) : c \in Range(Family)}

\* simulate_until_max_time: events strictly before the horizon
\* simulate_until_max_time in one or several calls (cfg.splits = horizons of the earlier calls, S.pz = index of the
\* call in progress); simulate_until_max_customers: events while the method's counter is below the target
Horizon == IF S.pz <= Len(S.cfg.splits) THEN S.cfg.splits[S.pz] ELSE S.cfg.T
Running == IF S.cfg.stop = "time" THEN MinDate(S) < Horizon
           ELSE IF S.cfg.stop = "deadlock" THEN ~S.dl /\ MinDate(S) < S.cfg.T
           ELSE P!Counter(S.cfg, S) < S.cfg.maxc /\ MinDate(S) < INF

\* the call in progress returns (nothing is due before its horizon) and the next call starts
PauseAct == /\ S.cfg.stop = "time"
            /\ S.pz <= Len(S.cfg.splits)
            /\ MinDate(S) >= S.cfg.splits[S.pz]
            /\ S' = [PauseStep(S, S.cfg.splits[S.pz]) EXCEPT !.pz = @ + 1]

Next == /\ Ok(S)
        /\ \/ Running /\ S' \in Event(S)
           \/ PauseAct

Spec == Init /\ [][Next]_S

\* bound on the number of customers created (state constraint)
Bound == S.created <= MaxCreated

\* observation fields do not influence the future: hide them from the fingerprint
View == [S EXCEPT !.steps = <<>>, !.recs = <<>>,
                  !.ev = [kind |-> "", node |-> 0, cls |-> 0, date |-> 0]]

\* behaviour export for the spec -> code replay (-simulate): when a random walk reaches ExportDepth its whole
\* behaviour (TLCExt!Trace) is printed as one JSON line: per state the event label and the micro-steps / draws
Proj(st) == [idx |-> st.cfg.idx, ev |-> st.ev, steps |-> st.steps, err |-> st.err]
Export == TLCGet("level") = ExportDepth =>
             PrintT(<<"BEH", ToJson([j \in DOMAIN Trace |-> Proj(Trace[j].S)])>>)

NoCrash == S.err = "" \/ SubSeq(S.err, 1, 10) = "unmodelled"

Inv_C01 == Ok(S) => P!F_C01_inv(S.cfg, S) = {}
Inv_C03 == Ok(S) => P!F_C03_inv(S.cfg, S) = {}
Inv_C04 == Ok(S) => P!F_C04_inv(S.cfg, S) = {}
Inv_C12 == Ok(S) => P!F_C12_inv(S.cfg, S) = {}
Inv_C05 == Ok(S) => P!F_C05_inv(S.cfg, S) = {}
Inv_C06 == Ok(S) => P!F_C06_inv(S.cfg, S) = {}
Inv_C07 == Ok(S) => P!F_C07_inv(S.cfg, S) = {}
Inv_C09 == Ok(S) => P!F_C09_inv(S.cfg, S) = {}
Inv_C10 == Ok(S) => P!F_C10_inv(S.cfg, S) = {}
Inv_C11 == Ok(S) => P!F_C11_inv(S.cfg, S) = {}
Inv_C13 == Ok(S) => P!F_C13_inv(S.cfg, S) = {}

Step_C01 == [][Ok(S') /\ S'.ev.kind # "pause" => P!F_C01_step(S.cfg, S, S') = {}]_S
Step_C02 == [][Ok(S') /\ S'.ev.kind # "pause" => P!F_C02_step(S.cfg, S, S') = {}]_S
Step_C03 == [][Ok(S') /\ S'.ev.kind # "pause" => P!F_C03_step(S.cfg, S, S') = {}]_S
Step_C04 == [][Ok(S') /\ S'.ev.kind # "pause" => P!F_C04_step(S.cfg, S, S') = {}]_S
Step_C12 == [][Ok(S') /\ S'.ev.kind # "pause" => P!F_C12_step(S.cfg, S, S') = {}]_S
Step_C05 == [][Ok(S') /\ S'.ev.kind # "pause" => P!F_C05_step(S.cfg, S, S') = {}]_S
Step_C06 == [][Ok(S') /\ S'.ev.kind # "pause" => P!F_C06_step(S.cfg, S, S') = {}]_S
Step_C07 == [][Ok(S') /\ S'.ev.kind # "pause" => P!F_C07_step(S.cfg, S, S') = {}]_S
Step_C08 == [][Ok(S') /\ S'.ev.kind # "pause" => P!F_C08_step(S.cfg, S, S') = {}]_S
Step_C09 == [][Ok(S') /\ S'.ev.kind # "pause" => P!F_C09_step(S.cfg, S, S', S.rt) = {}]_S
Inv_C18 == Ok(S) => P!F_C18_inv(S.cfg, S, S.dg) = {}
Step_C18 == [][Ok(S') /\ S'.ev.kind # "pause" => P!F_C18_step(S.cfg, S, S') = {}]_S
Step_C20 == [][Ok(S') /\ S'.ev.kind # "pause" => P!F_C20_step(S.cfg, S, S') = {}]_S
Inv_C19 == Ok(S) => P!F_C19_inv(S.cfg, S) = {}
Step_C19 == [][Ok(S') /\ S'.ev.kind # "pause" => P!F_C19_step(S.cfg, S, S') = {}]_S
Step_C16 == [][S'.ev.kind = "pause" => P!F_C16_pause(S.cfg, S, S') = {}]_S
Inv_C17 == Ok(S) => P!F_C17_inv(S.cfg, S, S.gb) = {}
Step_C17 == [][Ok(S') /\ S'.ev.kind # "pause" => P!F_C17_step(S.cfg, S, S') = {}]_S
Step_C10 == [][Ok(S') /\ S'.ev.kind # "pause" => P!F_C10_step(S.cfg, S, S') = {}]_S
Step_C11 == [][Ok(S') /\ S'.ev.kind # "pause" => P!F_C11_step(S.cfg, S, S') = {}]_S
Step_C13 == [][Ok(S') /\ S'.ev.kind # "pause" => P!F_C13_step(S.cfg, S, S') = {}]_S
Step_C14 == [][Ok(S') /\ S'.ev.kind # "pause" => P!F_C14_step(S.cfg, S, S') = {}]_S
=============================================================================
