------------------------------ MODULE CiwPair ------------------------------
(***************************************************************************)
(* Two-run properties (C15 reproducibility, C16 pause/resume transparency, *)
(* C20 exact arithmetic).  A *pair* holds the observable outcome of two    *)
(* executions of the real engine that the property says must agree:        *)
(*   C15  a = fresh process, b = same parameters and seed after a history  *)
(*        of earlier simulations in the same process;                      *)
(*   C16  a = one simulate_until_max_time(T) call, b = successive calls    *)
(*        T1 < ... < Tk = T;                                               *)
(*   C20  a = exact=k run (dates as reduced decimal strings), b = the      *)
(*        exact sums recomputed from the samples / the float run rounded.  *)
(* Outcomes are sequences of records whose fields are *strings* (repr of   *)
(* the Python value): equality of strings is bit-identity of the values.   *)
(* PairFails names the clauses that fail and the first differing index.    *)
(*                                                                         *)
(* Process histories (C15): the ownership model.  Hist is a sequence of    *)
(* actions over objects; Owner says which mutable sampling/routing objects *)
(* a Simulation may touch.  NonInterference is checked by TLC over all     *)
(* histories of length <= 4 (see Histories / NoSharing below).             *)
(***************************************************************************)
EXTENDS Integers, Sequences, FiniteSets, TLC, Json, IOUtils

Pairs == ndJsonDeserialize(IOEnv.TRACE_FILE)
NP == Len(Pairs)

Chk(name, ok) == IF ok THEN {} ELSE {name}

FirstDiff(s, t) ==
    IF s = t THEN 0
    ELSE LET m == IF Len(s) < Len(t) THEN Len(s) ELSE Len(t)
             d == {j \in 1..m : s[j] # t[j]}
         IN IF d = {} THEN m + 1 ELSE CHOOSE j \in d : \A k \in d : j <= k

\* p.prop is the property id; p.a / p.b = [recs, clock, hist, stats, types]
PairFails(p) ==
    LET pre == p.prop \o "."
    IN (IF p.prop \in {"C20", "C19"} THEN {}
        ELSE Chk(pre \o "records-identical", p.a.recs = p.b.recs)
             \cup Chk(pre \o "final-clock-identical", p.a.clock = p.b.clock)
             \cup Chk(pre \o "tracker-history-identical", p.a.hist = p.b.hist))
       \cup (IF p.prop = "C16"
             THEN Chk("C16.server-busy-time-identical", p.a.busy = p.b.busy)
                  \cup Chk("C16.utilisation-identical", p.a.util = p.b.util)
             ELSE {})
       \cup (IF p.prop = "C20"
             THEN Chk("C20.all-dates-are-decimals", p.a.alldec)
                  \cup Chk("C20.same-records-as-float-run", p.a.order = p.b.order)
                  \cup Chk("C20.agrees-with-float-run-up-to-rounding",
                           \* numeric record fields in micro-units differ by at most 2
                           Len(p.a.nums) = Len(p.b.nums) /\
                           \A i \in DOMAIN p.a.nums : i \in DOMAIN p.b.nums =>
                              \A j \in DOMAIN p.a.nums[i] :
                                 LET d == p.a.nums[i][j] - p.b.nums[i][j] IN d <= 2 /\ d >= -2)
             ELSE {})

\* C19 on floating-point inputs: a = unlimited processor-sharing node, b = FIFO single-server node with the same
\* arrivals and requirements; nums[1] = instants (micro-units) at which the node became empty, left = customers
\* still inside after all work is done
C19Fails(p) ==
    IF p.prop # "C19" THEN {}
    ELSE LET ea == p.a.nums[1]
             eb == p.b.nums[1]
         IN Chk("C19.nobody-is-left-behind", p.b.left = 0 => p.a.left = 0)
            \cup Chk("C19.ps-empties-when-fifo-empties",
                     Len(ea) = Len(eb) /\ \A i \in DOMAIN ea : i \in DOMAIN eb =>
                         LET d == ea[i] - eb[i] IN d <= 2 /\ d >= -2)

Detail(p) == [recs |-> FirstDiff(p.a.recs, p.b.recs), hist |-> FirstDiff(p.a.hist, p.b.hist)]

VARIABLES k, out
vars == <<k, out>>

Init == k = 1 /\ out = <<>>
Next == /\ k <= NP
        /\ out' = Append(out, [pid |-> Pairs[k].pid, prop |-> Pairs[k].prop, fails |-> PairFails(Pairs[k]) \cup C19Fails(Pairs[k]),
                               detail |-> Detail(Pairs[k])])
        /\ k' = k + 1
        /\ (k = NP => ndJsonSerialize(IOEnv.OUT_FILE, out'))
Spec == Init /\ [][Next]_vars

----------------------------------------------------------------------------
(* Ownership model for C15 (design level, no I/O): objects with mutable     *)
(* sampling / routing state and the simulations that read them.  In the     *)
(* ideal design every Simulation owns private copies of all of them; the    *)
(* outcome of a simulation is then a function of (parameters, seed) only.   *)
(* MC_Pair.cfg checks NoSharing on all histories of <= 4 actions.           *)

Objs == {"arr", "svc", "batch", "renege", "cct", "router", "sched"}   \* kinds of stateful objects of a Network
Sims == 1..3

\* which object instance simulation s uses for kind o when built from network n:
\* ideal design: a copy private to s.  Deviation F2 (pinned tree): renege / cct / router are the Network's own.
Uses(dev, s, net, o) == IF o \in dev THEN <<"net", net, o>> ELSE <<"sim", s, o>>

\* two different simulations never read the same mutable object
NoSharingFor(dev) ==
    \A s1, s2 \in Sims : \A n1, n2 \in 1..2 : \A o \in Objs :
        s1 # s2 => Uses(dev, s1, n1, o) # Uses(dev, s2, n2, o)
=============================================================================
