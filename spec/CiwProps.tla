------------------------------ MODULE CiwProps ------------------------------
(***************************************************************************)
(* The listed properties C01..C20 as formulas over the abstract state      *)
(* vocabulary (DESIGN.md section 6).  Every operator takes the             *)
(* configuration record and one or two states *as records*, so that the    *)
(* same definition is evaluated (a) by TLC on the reachable states and     *)
(* transitions of Ciw.tla and (b) by the trace validator on the states,    *)
(* micro-steps and records logged from the real engine.                    *)
(*                                                                         *)
(* Each `F_Cxx*` returns the SET of names of the clauses that fail (empty   *)
(* = holds).  All operators are total on arbitrary well-typed logs: they   *)
(* never CHOOSE from a possibly empty set, so a corrupted implementation   *)
(* state yields a verdict, not a TLC error.                                *)
(***************************************************************************)
EXTENDS CiwBase

Chk(name, ok) == IF ok THEN {} ELSE {name}

NN(S) == Len(S.nodes)
Qs(S, n) == Flatten(S.nodes[n].q)
RECURSIVE ConcatN(_, _)
ConcatN(f, n) == IF n = 0 THEN <<>> ELSE ConcatN(f, n - 1) \o f[n]
AllQ(S) == ConcatN([n \in 1..NN(S) |-> Qs(S, n)], NN(S))
LiveIds(S) == {S.cu[j].id : j \in DOMAIN S.cu}
IsLive(S, i) == \E j \in DOMAIN S.cu : S.cu[j].id = i
\* total lookup: callers guard with IsLive
CuOf(S, i) == S.cu[CHOOSE j \in DOMAIN S.cu : S.cu[j].id = i]
Pop(S) == SumSeq([n \in 1..NN(S) |-> S.nodes[n].count])
StepsOf(S, k) == SelectSeq(S.steps, LAMBDA s : s.k = k)
IdxOf(S, k) == {a \in DOMAIN S.steps : S.steps[a].k = k}
RecsOf(S, i) == SelectSeq(S.recs, LAMBDA r : r.id = i)

\* scheduling vocabulary
MinDateOf(S) == SetMin({S.and} \cup {S.nodes[n].ned : n \in 1..NN(S)})

----------------------------------------------------------------------------
(* Domains of quantification (R3) *)

HasReroute(cfg) == \E n \in DOMAIN cfg.nodes : cfg.nodes[n].pp = 4 \/
                       (cfg.nodes[n].kind = "sched" /\ cfg.nodes[n].sched.pre = 4)
HasPreemptiveSchedule(cfg) == \E n \in DOMAIN cfg.nodes :
                       cfg.nodes[n].kind = "sched" /\ cfg.nodes[n].sched.pre # 0
HasPriorityPreempt(cfg) == \E n \in DOMAIN cfg.nodes : cfg.nodes[n].pp # 0
FiniteStd(cfg, n) == cfg.nodes[n].kind = "std" /\ cfg.nodes[n].c < INF

----------------------------------------------------------------------------
(* C01 customer conservation *)

F_C01_inv(cfg, S) ==
    LET placed == AllQ(S) \o S.exit
    IN Chk("C01.no-duplicate", NoDup(placed))
       \cup Chk("C01.ids-1..created", Range(placed) = 1..S.created)
       \cup Chk("C01.node-count", \A n \in 1..NN(S) : S.nodes[n].count = Len(Qs(S, n)))
       \cup Chk("C01.balance", S.created = Pop(S) + Len(S.exit) /\ S.nexit = Len(S.exit))
       \cup Chk("C01.live-set", LiveIds(S) = Range(AllQ(S)) /\ Len(S.cu) = Cardinality(LiveIds(S)))
       \cup Chk("C01.location", \A j \in DOMAIN S.cu : \A n \in 1..NN(S) :
                                   (S.cu[j].loc = n) <=> InSeq(Qs(S, n), S.cu[j].id))

F_C01_step(cfg, pre, post) ==
    Chk("C01.exit-append-only", IsPrefixOf(pre.exit, post.exit))
    \cup Chk("C01.created-monotone", post.created >= pre.created)
    \cup Chk("C01.new-ids", \A a \in IdxOf(post, "admit") :
                               post.steps[a].i > pre.created /\ post.steps[a].i <= post.created)

----------------------------------------------------------------------------
(* C02 causal, monotone time; record arithmetic *)

RecOk(r, now) ==
    IF r.type = "service" THEN
         r.arr >= 0 /\ r.arr <= r.ss /\ r.ss <= r.se /\ r.se <= r.exit /\ r.exit <= now
         /\ r.wait = r.ss - r.arr /\ r.st = r.se - r.ss /\ r.tb = r.exit - r.se
    ELSE IF r.type = "interrupted service" THEN
         r.arr >= 0 /\ r.arr <= r.ss /\ r.ss <= r.exit /\ r.exit = now /\ r.wait = r.ss - r.arr /\ r.st >= 0
    ELSE IF r.type = "renege" THEN
         r.arr >= 0 /\ r.arr <= r.exit /\ r.exit = now /\ r.wait = r.exit - r.arr
    ELSE IF r.type \in {"baulk", "rejection"} THEN r.arr = now /\ r.exit = now
    ELSE FALSE

F_C02_step(cfg, pre, post) ==
    Chk("C02.clock-monotone", post.now >= pre.now)
    \cup Chk("C02.event-at-scheduled-date", post.ev.date = MinDateOf(pre) /\ post.now = post.ev.date)
    \cup Chk("C02.nothing-scheduled-in-past",
             post.and >= post.now
             /\ (\A n \in 1..NN(post) : post.nodes[n].ned >= post.now /\ post.nodes[n].shd >= post.now)
             /\ (\A n \in DOMAIN post.arr : \A k \in DOMAIN post.arr[n] : post.arr[n][k] >= post.now))
    \cup Chk("C02.record-arithmetic", \A a \in DOMAIN post.recs : RecOk(post.recs[a], post.now))

----------------------------------------------------------------------------
(* C03 journey continuity *)

Terminal(type) == type \in {"baulk", "rejection", "renege"}

\* summary <<node, dest, exit, arr, type>> of the record preceding recs[a] for the same customer
PrevRec(pre, post, a) ==
    LET r == post.recs[a]
        earlier == {b \in 1..(a-1) : post.recs[b].id = r.id}
    IN IF earlier # {} THEN LET p == post.recs[SetMax(earlier)]
                            IN [n |-> p.n, dest |-> p.dest, exit |-> p.exit, arr |-> p.arr, type |-> p.type]
       ELSE IF IsLive(pre, r.id) /\ CuOf(pre, r.id).nrec > 0
            THEN LET c == CuOf(pre, r.id)
                 IN [n |-> c.lnode, dest |-> c.ldest, exit |-> c.lexit, arr |-> c.larr, type |-> c.ltype]
       ELSE [n |-> 0, dest |-> NONE, exit |-> NONE, arr |-> NONE, type |-> "none"]

ChainOk(pre, post, a) ==
    LET r == post.recs[a]
        p == PrevRec(pre, post, a)
    IN IF p.type = "none" THEN
          \* first record: at the node and visit the customer is in (created in this event or earlier)
          IF IsLive(pre, r.id) THEN r.n = CuOf(pre, r.id).loc /\ r.arr = CuOf(pre, r.id).arr
          ELSE r.id > pre.created /\ r.n = post.ev.node /\ r.arr = post.now
       ELSE IF Terminal(p.type) THEN FALSE
       ELSE IF r.type \in {"baulk", "rejection"} THEN FALSE      \* only ever a first record
       ELSE IF p.type = "interrupted service" /\ p.dest = NONE THEN r.n = p.n /\ r.arr = p.arr
       ELSE r.n = p.dest /\ r.arr = p.exit

\* last record type / destination of customer i after this event
LastOf(pre, post, i) ==
    LET mine == {b \in DOMAIN post.recs : post.recs[b].id = i}
    IN IF mine # {} THEN LET p == post.recs[SetMax(mine)] IN [type |-> p.type, dest |-> p.dest]
       ELSE IF IsLive(pre, i) THEN [type |-> CuOf(pre, i).ltype, dest |-> CuOf(pre, i).ldest]
       ELSE [type |-> "none", dest |-> NONE]

F_C03_step(cfg, pre, post) ==
    Chk("C03.chain", \A a \in DOMAIN post.recs : ChainOk(pre, post, a))
    \cup Chk("C03.exit-iff-terminal-record",
             \A a \in (Len(pre.exit) + 1)..Len(post.exit) :
                LET l == LastOf(pre, post, post.exit[a])
                IN Terminal(l.type) \/ (l.type \in {"service", "interrupted service"} /\ l.dest = EXIT))
    \cup Chk("C03.one-service-record-per-visit",
             \A n \in 1..NN(post) : \A i \in {post.steps[a].i : a \in IdxOf(post, "release")} :
                Cardinality({a \in DOMAIN post.recs : post.recs[a].id = i /\ post.recs[a].n = n
                                                        /\ post.recs[a].type = "service"})
                = Cardinality({a \in IdxOf(post, "release") : post.steps[a].i = i /\ post.steps[a].n = n
                                                               /\ post.steps[a].f # 2}))
    \cup Chk("C03.new-customer-placed",
             \A j \in DOMAIN post.cu : post.cu[j].id > pre.created /\ post.cu[j].nrec = 0
                  => post.cu[j].loc = post.ev.node /\ post.cu[j].arr = post.now)

F_C03_inv(cfg, S) ==
    Chk("C03.live-customer-matches-last-record",
        \A j \in DOMAIN S.cu :
           LET c == S.cu[j]
           IN c.nrec > 0 =>
                 /\ ~Terminal(c.ltype)
                 /\ IF c.ltype = "interrupted service" /\ c.ldest = NONE
                    THEN c.lnode = c.loc /\ c.larr = c.arr
                    ELSE c.ldest = c.loc /\ c.lexit = c.arr)

----------------------------------------------------------------------------
(* C06 finite capacity; rejection iff full *)

Dom_C06(cfg) == ~HasReroute(cfg)

F_C06_inv(cfg, S) ==
    IF ~Dom_C06(cfg) THEN {}
    ELSE Chk("C06.node-capacity", \A n \in 1..NN(S) :
                 cfg.nodes[n].kind \in {"std", "ps"} => S.nodes[n].count <= S.nodes[n].cap)
         \cup Chk("C06.system-capacity", Pop(S) <= cfg.syscap)

\* outcome of the admission whose `admit` step is at index a: the next step about the same customer
AdmitOutcome(S, a) ==
    LET later == {b \in (a+1)..Len(S.steps) : S.steps[b].i = S.steps[a].i
                                               /\ S.steps[b].k \in {"reject", "baulk", "send"}}
    IN IF later = {} THEN "none" ELSE S.steps[SetMin(later)].k

F_C06_step(cfg, pre, post) ==
    IF ~Dom_C06(cfg) THEN {}
    ELSE
    LET adm == IdxOf(post, "admit")
        acceptsBefore(a, n) == Cardinality({b \in 1..(a-1) : post.steps[b].k = "accept"
                                               /\ (n = 0 \/ post.steps[b].n = n)})
    IN Chk("C06.population-seen", \A a \in adm :
              LET s == post.steps[a]
              IN s.n \in 1..NN(pre) /\ s.x = pre.nodes[s.n].count + acceptsBefore(a, s.n)
                 /\ s.y = Pop(pre) + acceptsBefore(a, 0))
       \cup Chk("C06.reject-iff-full", \A a \in adm :
              LET s == post.steps[a]
                  full == s.n \in 1..NN(pre) /\ (s.x >= pre.nodes[s.n].cap \/ s.y >= cfg.syscap)
              IN (AdmitOutcome(post, a) = "reject") <=> full)
       \cup Chk("C06.rejection-record", \A a \in adm :
              AdmitOutcome(post, a) = "reject" =>
                 LET s == post.steps[a]
                     mine == RecsOf(post, s.i)
                 IN Len(mine) = 1 /\ mine[1].type = "rejection" /\ mine[1].qa = s.x /\ mine[1].n = s.n
                    /\ InSeq(post.exit, s.i) /\ ~IsLive(post, s.i))
       \cup Chk("C06.admitted-counted",
              post.accepted - pre.accepted = Cardinality(IdxOf(post, "send"))
              /\ \A a \in adm : AdmitOutcome(post, a) # "none")

----------------------------------------------------------------------------
(* C07 type I blocking *)

Dom_C07(cfg) == ~HasPreemptiveSchedule(cfg) /\ ~HasPriorityPreempt(cfg)
                 /\ \A n \in DOMAIN cfg.nodes : cfg.nodes[n].kind \in {"std", "sched"}

\* the release or block step that decides the fate of the customer picked by the finish at index a
FinishDecision(S, a) ==
    LET picks == {b \in (a+1)..Len(S.steps) : S.steps[b].k = "pickind"}
    IN IF picks = {} THEN 0
       ELSE LET i == S.steps[SetMin(picks)].i
                dec == {b \in (a+1)..Len(S.steps) : S.steps[b].i = i /\ S.steps[b].k \in {"release", "block"}}
            IN IF dec = {} THEN 0 ELSE SetMin(dec)

F_C07_step(cfg, pre, post) ==
    IF ~Dom_C07(cfg) THEN {}
    ELSE
    LET N == NN(post)
        unb(d) == SelectSeq(post.steps, LAMBDA s : s.k = "release" /\ s.f = 1 /\ s.d = d)
        blk(d) == SelectSeq(post.steps, LAMBDA s : s.k = "block" /\ s.d = d)
        pairs(ss) == [a \in DOMAIN ss |-> <<ss[a].n, ss[a].i>>]
    IN Chk("C07.move-iff-space", \A a \in IdxOf(post, "finish") :
              LET b == FinishDecision(post, a)
              IN b # 0 /\ LET s == post.steps[b]
                          IN IF s.k = "release" THEN s.d = EXIT \/ s.x < s.y ELSE s.d # EXIT /\ s.x >= s.y)
       \cup Chk("C07.blocked-keeps-place", \A j \in DOMAIN pre.cu :
              LET c == pre.cu[j]
              IN c.blk =>
                   IF IsLive(post, c.id) /\ CuOf(post, c.id).blk /\ CuOf(post, c.id).loc = c.loc
                   THEN CuOf(post, c.id).dest = c.dest
                        /\ (FiniteStd(cfg, c.loc) => CuOf(post, c.id).srv = c.srv /\ c.srv > 0)
                   ELSE \E a \in IdxOf(post, "release") : post.steps[a].i = c.id /\ post.steps[a].f = 1
                                                           /\ post.steps[a].d = c.dest /\ post.steps[a].n = c.loc)
       \cup Chk("C07.fifo-unblocking", \A d \in 1..N :
              LET u == pairs(unb(d))
                  k == Len(u)
              IN k <= Len(pre.nodes[d].bq)
                 /\ u = SubSeq(pre.nodes[d].bq, 1, k)
                 /\ post.nodes[d].bq = SubSeq(pre.nodes[d].bq, k + 1, Len(pre.nodes[d].bq)) \o pairs(blk(d)))
       \cup Chk("C07.no-second-finish", \A a \in IdxOf(post, "pickind") :
              post.steps[a].f = 0 => (IsLive(pre, post.steps[a].i) /\ ~CuOf(pre, post.steps[a].i).blk))
       \cup Chk("C07.time-blocked", \A a \in IdxOf(post, "release") :
              LET s == post.steps[a]
                  mine == SelectSeq(post.recs, LAMBDA r : r.id = s.i /\ r.n = s.n /\ r.type = "service")
              IN s.f # 2 /\ IsLive(pre, s.i) /\ mine # <<>> =>
                   (IF s.f = 1 THEN mine[1].se = CuOf(pre, s.i).se /\ mine[1].tb = post.now - CuOf(pre, s.i).se
                    ELSE mine[1].tb = 0))

F_C07_inv(cfg, S) ==
    IF ~Dom_C07(cfg) THEN {}
    ELSE
    Chk("C07.never-blocked-while-space", \A d \in 1..NN(S) :
            S.nodes[d].bq # <<>> => S.nodes[d].count >= S.nodes[d].cap)
    \cup Chk("C07.blocked-queue-is-blocked-set", \A d \in 1..NN(S) :
            LET bq == S.nodes[d].bq
            IN NoDup(bq) /\ S.nodes[d].lbq = Len(bq)
               /\ Range(bq) = {<<S.cu[j].loc, S.cu[j].id>> : j \in {a \in DOMAIN S.cu : S.cu[a].blk /\ S.cu[a].dest = d}})
    \cup Chk("C07.blocked-has-finished", \A j \in DOMAIN S.cu :
            S.cu[j].blk => S.cu[j].se # NONE /\ S.cu[j].se <= S.now /\ S.cu[j].dest \in 1..NN(S))

----------------------------------------------------------------------------
(* C10 sampled inputs honoured *)

F_C10_step(cfg, pre, post) ==
    LET ias == StepsOf(post, "ia")
        bts == StepsOf(post, "batch")
        isArr == post.ev.kind = "arrival"
        n == post.ev.node
        k == post.ev.cls
    IN Chk("C10.arrival-draws",
           IF isArr THEN Len(ias) = 1 /\ Len(bts) = 1 /\ ias[1].n = n /\ ias[1].x = k
                         /\ bts[1].n = n /\ bts[1].x = k
           ELSE ias = <<>> /\ bts = <<>>)
       \cup Chk("C10.batch-size", isArr /\ Len(bts) = 1 => post.created - pre.created = bts[1].y)
       \cup Chk("C10.arrival-dates-partial-sums",
           IF isArr /\ Len(ias) = 1 /\ n \in DOMAIN pre.arr /\ k \in DOMAIN pre.arr[n]
           THEN post.ev.date = pre.arr[n][k] /\ post.arr[n][k] = pre.arr[n][k] + ias[1].y
                /\ \A m \in DOMAIN pre.arr : \A c \in DOMAIN pre.arr[m] :
                      (m # n \/ c # k) => post.arr[m][c] = pre.arr[m][c]
           ELSE ~isArr => post.arr = pre.arr)
       \cup Chk("C10.no-arrival-without-creation", ~isArr => post.created = pre.created)
       \cup Chk("C10.service-draw-at-start", \A a \in IdxOf(post, "svc") :
              LET s == post.steps[a]
              IN s.f = post.now
                 /\ \E b \in {a - 1, a + 1} \cap DOMAIN post.steps :
                       post.steps[b].k = "start" /\ post.steps[b].i = s.i /\ post.steps[b].n = s.n)
       \cup Chk("C10.service-lasts-the-sample", \A a \in IdxOf(post, "svc") :
              LET s == post.steps[a]
              IN IsLive(post, s.i) /\ CuOf(post, s.i).loc = s.n /\ CuOf(post, s.i).ss = post.now
                    /\ cfg.nodes[s.n].kind = "std"
                 => CuOf(post, s.i).se = post.now + s.y /\ CuOf(post, s.i).st = s.y)
       \cup Chk("C10.fresh-start-draws", \A a \in IdxOf(post, "start") :
              LET s == post.steps[a]
                  fresh == ~IsLive(pre, s.i) \/ CuOf(pre, s.i).loc # s.n \/ CuOf(pre, s.i).stm \in {0, 3}
                           \/ CuOf(pre, s.i).arr # (IF IsLive(post, s.i) THEN CuOf(post, s.i).arr ELSE NONE)
              IN fresh /\ s.n \in DOMAIN cfg.nodes /\ cfg.nodes[s.n].kind = "std" =>
                   \E b \in {a - 1, a + 1} \cap DOMAIN post.steps :
                       post.steps[b].k = "svc" /\ post.steps[b].i = s.i)
       \cup Chk("C10.record-equals-sampled-service", \A a \in DOMAIN post.recs :
              LET r == post.recs[a]
              IN r.type = "service" /\ IsLive(pre, r.id) /\ CuOf(pre, r.id).loc = r.n
                    /\ CuOf(pre, r.id).ost = NONE /\ CuOf(pre, r.id).ss # NONE
                    /\ r.n \in DOMAIN cfg.nodes /\ cfg.nodes[r.n].kind = "std"
                 => r.ss = CuOf(pre, r.id).ss /\ r.se = CuOf(pre, r.id).se /\ r.st = CuOf(pre, r.id).st)

F_C10_inv(cfg, S) ==
    Chk("C10.end-is-start-plus-sample", \A j \in DOMAIN S.cu :
           LET c == S.cu[j]
           IN c.ss # NONE /\ ~c.intr /\ c.loc \in DOMAIN cfg.nodes /\ cfg.nodes[c.loc].kind = "std"
              => c.st # NONE /\ c.se = c.ss + c.st)

----------------------------------------------------------------------------
(* Aggregation *)

StepFails(cfg, pre, post) ==
    F_C01_step(cfg, pre, post) \cup F_C02_step(cfg, pre, post) \cup F_C03_step(cfg, pre, post)
    \cup F_C06_step(cfg, pre, post) \cup F_C07_step(cfg, pre, post) \cup F_C10_step(cfg, pre, post)

InvFails(cfg, S) ==
    F_C01_inv(cfg, S) \cup F_C03_inv(cfg, S) \cup F_C06_inv(cfg, S) \cup F_C07_inv(cfg, S)
    \cup F_C10_inv(cfg, S)

\* non-vacuity witnesses of one event
Witnesses(cfg, pre, post) ==
    {post.steps[a].k : a \in DOMAIN post.steps}
    \cup {"ev:" \o post.ev.kind}
    \cup (IF \E a \in IdxOf(post, "pickind") : Len(post.steps[a].w) > 1 THEN {"tie-ind"} ELSE {})
    \cup (IF \E a \in IdxOf(post, "release") : post.steps[a].f = 1 THEN {"unblock"} ELSE {})
    \cup (IF Cardinality({post.steps[a].i : a \in IdxOf(post, "release")}) > 1 THEN {"cascade"} ELSE {})
    \cup (IF Cardinality(IdxOf(post, "admit")) > 1 THEN {"batch>1"} ELSE {})
    \cup (IF \E a \in IdxOf(post, "svc") : post.steps[a].y = 0 THEN {"zero-service"} ELSE {})
    \cup (IF post.now = pre.now /\ pre.ev.kind # "init" THEN {"same-instant"} ELSE {})
=============================================================================
