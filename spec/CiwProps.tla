------------------------------ MODULE CiwProps ------------------------------
(***************************************************************************)
(* The listed properties C01..C20 as formulas over the abstract state      *)
(* vocabulary (DESIGN.md section 6).  Every operator takes the             *)
(* configuration record and one or two states *as records*, so that the    *)
(* same definition is evaluated (a) by TLC on the reachable states and     *)
(* transitions of Ciw.tla and (b) by the trace validator on the states,    *)
(* micro-steps and records logged from the real engine.                    *)
(*                                                                         *)
(* Each `F_Cxx*` returns the SET of names of the clauses that fail (empty   *)
(* = holds).  All operators are total on arbitrary well-typed logs: they   *)
(* never CHOOSE from a possibly empty set, so a corrupted implementation   *)
(* state yields a verdict, not a TLC error.                                *)
(***************************************************************************)
EXTENDS CiwBase

Chk(name, ok) == IF ok THEN {} ELSE {name}

NN(S) == Len(S.nodes)
Qs(S, n) == Flatten(S.nodes[n].q)
RECURSIVE ConcatN(_, _)
ConcatN(f, n) == IF n = 0 THEN <<>> ELSE ConcatN(f, n - 1) \o f[n]
AllQ(S) == ConcatN([n \in 1..NN(S) |-> Qs(S, n)], NN(S))
LiveIds(S) == {S.cu[j].id : j \in DOMAIN S.cu}
IsLive(S, i) == \E j \in DOMAIN S.cu : S.cu[j].id = i
\* total lookup: callers guard with IsLive
CuOf(S, i) == S.cu[CHOOSE j \in DOMAIN S.cu : S.cu[j].id = i]
Pop(S) == SumSeq([n \in 1..NN(S) |-> S.nodes[n].count])
StepsOf(S, k) == SelectSeq(S.steps, LAMBDA s : s.k = k)
IdxOf(S, k) == {a \in DOMAIN S.steps : S.steps[a].k = k}
RecsOf(S, i) == SelectSeq(S.recs, LAMBDA r : r.id = i)

\* scheduling vocabulary
MinDateOf(S) == SetMin({S.and} \cup {S.nodes[n].ned : n \in 1..NN(S)})

----------------------------------------------------------------------------
(* Domains of quantification (R3) *)

HasReroute(cfg) == \E n \in DOMAIN cfg.nodes : cfg.nodes[n].pp = 4 \/
                       (cfg.nodes[n].kind = "sched" /\ cfg.nodes[n].sched.pre = 4)
HasPreemptiveSchedule(cfg) == \E n \in DOMAIN cfg.nodes :
                       cfg.nodes[n].kind = "sched" /\ cfg.nodes[n].sched.pre # 0
HasPriorityPreempt(cfg) == \E n \in DOMAIN cfg.nodes : cfg.nodes[n].pp # 0
FiniteStd(cfg, n) == cfg.nodes[n].kind = "std" /\ cfg.nodes[n].c < INF

----------------------------------------------------------------------------
(* C01 customer conservation *)

F_C01_inv(cfg, S) ==
    LET placed == AllQ(S) \o S.exit
    IN Chk("C01.no-duplicate", NoDup(placed))
       \cup Chk("C01.ids-1..created", Range(placed) = 1..S.created)
       \cup Chk("C01.node-count", \A n \in 1..NN(S) : S.nodes[n].count = Len(Qs(S, n)))
       \cup Chk("C01.balance", S.created = Pop(S) + Len(S.exit) /\ S.nexit = Len(S.exit))
       \cup Chk("C01.live-set", LiveIds(S) = Range(AllQ(S)) /\ Len(S.cu) = Cardinality(LiveIds(S)))
       \cup Chk("C01.location", \A j \in DOMAIN S.cu : \A n \in 1..NN(S) :
                                   (S.cu[j].loc = n) <=> InSeq(Qs(S, n), S.cu[j].id))

F_C01_step(cfg, pre, post) ==
    Chk("C01.exit-append-only", IsPrefixOf(pre.exit, post.exit))
    \cup Chk("C01.created-monotone", post.created >= pre.created)
    \cup Chk("C01.new-ids", \A a \in IdxOf(post, "admit") :
                               post.steps[a].i > pre.created /\ post.steps[a].i <= post.created)

----------------------------------------------------------------------------
(* C02 causal, monotone time; record arithmetic *)

RecOk(r, now) ==
    IF r.type = "service" THEN
         r.arr >= 0 /\ r.arr <= r.ss /\ r.ss <= r.se /\ r.se <= r.exit /\ r.exit <= now
         /\ r.wait = r.ss - r.arr /\ r.st = r.se - r.ss /\ r.tb = r.exit - r.se
    ELSE IF r.type = "interrupted service" THEN
         r.arr >= 0 /\ r.arr <= r.ss /\ r.ss <= r.exit /\ r.exit = now /\ r.wait = r.ss - r.arr /\ r.st >= 0
    ELSE IF r.type = "renege" THEN
         r.arr >= 0 /\ r.arr <= r.exit /\ r.exit = now /\ r.wait = r.exit - r.arr
    ELSE IF r.type \in {"baulk", "rejection"} THEN r.arr = now /\ r.exit = now
    ELSE FALSE

F_C02_step(cfg, pre, post) ==
    Chk("C02.clock-monotone", post.now >= pre.now)
    \cup Chk("C02.event-at-scheduled-date", post.ev.date = MinDateOf(pre) /\ post.now = post.ev.date)
    \cup Chk("C02.nothing-scheduled-in-past",
             post.and >= post.now
             /\ (\A n \in 1..NN(post) : post.nodes[n].ned >= post.now /\ post.nodes[n].shd >= post.now)
             /\ (\A n \in DOMAIN post.arr : \A k \in DOMAIN post.arr[n] : post.arr[n][k] >= post.now))
    \cup Chk("C02.record-arithmetic", \A a \in DOMAIN post.recs : RecOk(post.recs[a], post.now))

----------------------------------------------------------------------------
(* C03 journey continuity *)

Terminal(type) == type \in {"baulk", "rejection", "renege"}

\* summary <<node, dest, exit, arr, type>> of the record preceding recs[a] for the same customer
PrevRec(pre, post, a) ==
    LET r == post.recs[a]
        earlier == {b \in 1..(a-1) : post.recs[b].id = r.id}
    IN IF earlier # {} THEN LET p == post.recs[SetMax(earlier)]
                            IN [n |-> p.n, dest |-> p.dest, exit |-> p.exit, arr |-> p.arr, type |-> p.type]
       ELSE IF IsLive(pre, r.id) /\ CuOf(pre, r.id).nrec > 0
            THEN LET c == CuOf(pre, r.id)
                 IN [n |-> c.lnode, dest |-> c.ldest, exit |-> c.lexit, arr |-> c.larr, type |-> c.ltype]
       ELSE [n |-> 0, dest |-> NONE, exit |-> NONE, arr |-> NONE, type |-> "none"]

ChainOk(pre, post, a) ==
    LET r == post.recs[a]
        p == PrevRec(pre, post, a)
    IN IF p.type = "none" THEN
          \* first record: at the node and visit the customer is in (created in this event or earlier)
          IF IsLive(pre, r.id) THEN r.n = CuOf(pre, r.id).loc /\ r.arr = CuOf(pre, r.id).arr
          ELSE r.id > pre.created /\ r.n = post.ev.node /\ r.arr = post.now
       ELSE IF r.type \in {"baulk", "rejection"} THEN FALSE      \* only ever a first record
       ELSE IF p.type = "renege" THEN r.arr = p.exit    \* only after jockeying to another node (C13 says where)
       ELSE IF Terminal(p.type) THEN FALSE
       ELSE IF p.type = "interrupted service" /\ p.dest = NONE THEN r.n = p.n /\ r.arr = p.arr
       ELSE r.n = p.dest /\ r.arr = p.exit

\* last record type / destination of customer i after this event
LastOf(pre, post, i) ==
    LET mine == {b \in DOMAIN post.recs : post.recs[b].id = i}
    IN IF mine # {} THEN LET p == post.recs[SetMax(mine)] IN [type |-> p.type, dest |-> p.dest]
       ELSE IF IsLive(pre, i) THEN [type |-> CuOf(pre, i).ltype, dest |-> CuOf(pre, i).ldest]
       ELSE [type |-> "none", dest |-> NONE]

F_C03_step(cfg, pre, post) ==
    Chk("C03.chain", \A a \in DOMAIN post.recs : ChainOk(pre, post, a))
    \cup Chk("C03.exit-iff-terminal-record",
             \A a \in (Len(pre.exit) + 1)..Len(post.exit) :
                LET l == LastOf(pre, post, post.exit[a])
                IN Terminal(l.type) \/ (l.type \in {"service", "interrupted service"} /\ l.dest = EXIT))
    \cup Chk("C03.one-service-record-per-visit",
             \A n \in 1..NN(post) : \A i \in {post.steps[a].i : a \in IdxOf(post, "release")} :
                Cardinality({a \in DOMAIN post.recs : post.recs[a].id = i /\ post.recs[a].n = n
                                                        /\ post.recs[a].type = "service"})
                = Cardinality({a \in IdxOf(post, "release") : post.steps[a].i = i /\ post.steps[a].n = n
                                                               /\ post.steps[a].f # 2}))
    \cup Chk("C03.new-customer-placed",
             \A j \in DOMAIN post.cu : post.cu[j].id > pre.created /\ post.cu[j].nrec = 0
                  => post.cu[j].loc = post.ev.node /\ post.cu[j].arr = post.now)

F_C03_inv(cfg, S) ==
    Chk("C03.live-customer-matches-last-record",
        \A j \in DOMAIN S.cu :
           LET c == S.cu[j]
           IN c.nrec > 0 =>
                 /\ (~Terminal(c.ltype) \/ c.ltype = "renege")
                 /\ IF c.ltype = "renege" THEN c.lexit = c.arr
                    ELSE IF c.ltype = "interrupted service" /\ c.ldest = NONE
                    THEN c.lnode = c.loc /\ c.larr = c.arr
                    ELSE c.ldest = c.loc /\ c.lexit = c.arr)

----------------------------------------------------------------------------
(* C06 finite capacity; rejection iff full *)

Dom_C06(cfg) == ~HasReroute(cfg)

F_C06_inv(cfg, S) ==
    IF ~Dom_C06(cfg) THEN {}
    ELSE Chk("C06.node-capacity", \A n \in 1..NN(S) :
                 cfg.nodes[n].kind \in {"std", "ps"} => S.nodes[n].count <= S.nodes[n].cap)
         \cup Chk("C06.system-capacity", Pop(S) <= cfg.syscap)

\* outcome of the admission whose `admit` step is at index a: the next step about the same customer
AdmitOutcome(S, a) ==
    LET later == {b \in (a+1)..Len(S.steps) : S.steps[b].i = S.steps[a].i
                                               /\ S.steps[b].k \in {"reject", "baulk", "send"}}
    IN IF later = {} THEN "none" ELSE S.steps[SetMin(later)].k

F_C06_step(cfg, pre, post) ==
    IF ~Dom_C06(cfg) THEN {}
    ELSE
    LET adm == IdxOf(post, "admit")
        acceptsBefore(a, n) == Cardinality({b \in 1..(a-1) : post.steps[b].k = "accept"
                                               /\ (n = 0 \/ post.steps[b].n = n)})
    IN Chk("C06.population-seen", \A a \in adm :
              LET s == post.steps[a]
              IN s.n \in 1..NN(pre) /\ s.x = pre.nodes[s.n].count + acceptsBefore(a, s.n)
                 /\ s.y = Pop(pre) + acceptsBefore(a, 0))
       \cup Chk("C06.reject-iff-full", \A a \in adm :
              LET s == post.steps[a]
                  full == s.n \in 1..NN(pre) /\ (s.x >= pre.nodes[s.n].cap \/ s.y >= cfg.syscap)
              IN (AdmitOutcome(post, a) = "reject") <=> full)
       \cup Chk("C06.rejection-record", \A a \in adm :
              AdmitOutcome(post, a) = "reject" =>
                 LET s == post.steps[a]
                     mine == RecsOf(post, s.i)
                 IN Len(mine) = 1 /\ mine[1].type = "rejection" /\ mine[1].qa = s.x /\ mine[1].n = s.n
                    /\ InSeq(post.exit, s.i) /\ ~IsLive(post, s.i))
       \cup Chk("C06.admitted-counted",
              post.accepted - pre.accepted = Cardinality(IdxOf(post, "send"))
              /\ \A a \in adm : AdmitOutcome(post, a) # "none")

----------------------------------------------------------------------------
(* C07 type I blocking *)

Dom_C07(cfg) == ~HasPreemptiveSchedule(cfg) /\ ~HasPriorityPreempt(cfg)
                 /\ \A n \in DOMAIN cfg.nodes : (cfg.nodes[n].kind \in {"std", "sched"}
                                                 \/ (cfg.nodes[n].kind = "slot" /\ cfg.nodes[n].slot.pre = 0))

\* the release or block step that decides the fate of the customer picked by the finish at index a
FinishDecision(S, a) ==
    LET picks == {b \in (a+1)..Len(S.steps) : S.steps[b].k = "pickind"}
    IN IF picks = {} THEN 0
       ELSE LET i == S.steps[SetMin(picks)].i
                dec == {b \in (a+1)..Len(S.steps) : S.steps[b].i = i /\ S.steps[b].k \in {"release", "block"}}
            IN IF dec = {} THEN 0 ELSE SetMin(dec)

F_C07_step(cfg, pre, post) ==
    IF ~Dom_C07(cfg) THEN {}
    ELSE
    LET N == NN(post)
        unb(d) == SelectSeq(post.steps, LAMBDA s : s.k = "release" /\ s.f = 1 /\ s.d = d)
        blk(d) == SelectSeq(post.steps, LAMBDA s : s.k = "block" /\ s.d = d)
        pairs(ss) == [a \in DOMAIN ss |-> <<ss[a].n, ss[a].i>>]
    IN Chk("C07.move-iff-space", \A a \in IdxOf(post, "finish") :
              LET b == FinishDecision(post, a)
              IN b # 0 /\ LET s == post.steps[b]
                          IN IF s.k = "release" THEN s.d = EXIT \/ s.x < s.y ELSE s.d # EXIT /\ s.x >= s.y)
       \cup Chk("C07.blocked-customer-is-not-served-again", \A a \in IdxOf(post, "start") :
              \* a blocked customer has finished its service: it is not given a new one while it stays blocked
              LET s == post.steps[a]
              IN IsLive(pre, s.i) /\ CuOf(pre, s.i).blk /\ IsLive(post, s.i) /\ CuOf(post, s.i).loc = CuOf(pre, s.i).loc
                 => ~CuOf(post, s.i).blk)
       \cup Chk("C07.blocked-keeps-place", \A j \in DOMAIN pre.cu :
              LET c == pre.cu[j]
              IN c.blk =>
                   IF IsLive(post, c.id) /\ CuOf(post, c.id).blk /\ CuOf(post, c.id).loc = c.loc
                   THEN CuOf(post, c.id).dest = c.dest
                        /\ (FiniteStd(cfg, c.loc) => CuOf(post, c.id).srv = c.srv /\ c.srv > 0)
                   ELSE \E a \in IdxOf(post, "release") : post.steps[a].i = c.id /\ post.steps[a].f = 1
                                                           /\ post.steps[a].d = c.dest /\ post.steps[a].n = c.loc)
       \cup Chk("C07.fifo-unblocking", \A d \in 1..N :
              LET u == pairs(unb(d))
                  k == Len(u)
              IN k <= Len(pre.nodes[d].bq)
                 /\ u = SubSeq(pre.nodes[d].bq, 1, k)
                 /\ post.nodes[d].bq = SubSeq(pre.nodes[d].bq, k + 1, Len(pre.nodes[d].bq)) \o pairs(blk(d)))
       \cup Chk("C07.no-second-finish", \A a \in IdxOf(post, "pickind") :
              post.steps[a].f = 0 => (IsLive(pre, post.steps[a].i) /\ ~CuOf(pre, post.steps[a].i).blk))
       \cup Chk("C07.time-blocked", \A a \in IdxOf(post, "release") :
              LET s == post.steps[a]
                  mine == SelectSeq(post.recs, LAMBDA r : r.id = s.i /\ r.n = s.n /\ r.type = "service")
              IN s.f # 2 /\ IsLive(pre, s.i) /\ mine # <<>> =>
                   (IF s.f = 1 THEN mine[1].se = CuOf(pre, s.i).se /\ mine[1].tb = post.now - CuOf(pre, s.i).se
                    ELSE mine[1].tb = 0))

\* the queue of customers blocked towards d is exactly the set of customers blocked towards d (book-keeping that the
\* FIFO unblocking rule rests on); checked in every configuration without priority pre-emption, pre-emptive
\* schedules included
BlockedQueueOk(S) ==
    \A d \in 1..NN(S) :
        LET bq == S.nodes[d].bq
        IN NoDup(bq) /\ S.nodes[d].lbq = Len(bq)
           /\ Range(bq) = {<<S.cu[j].loc, S.cu[j].id>> : j \in {a \in DOMAIN S.cu : S.cu[a].blk /\ S.cu[a].dest = d}}

F_C07_inv(cfg, S) ==
    IF ~Dom_C07(cfg)
    THEN (IF HasPriorityPreempt(cfg) \/ HasReroute(cfg) THEN {}
          ELSE Chk("C07.blocked-queue-is-blocked-set", BlockedQueueOk(S)))
    ELSE
    Chk("C07.never-blocked-while-space", \A d \in 1..NN(S) :
            S.nodes[d].bq # <<>> => S.nodes[d].count >= S.nodes[d].cap)
    \cup Chk("C07.blocked-queue-is-blocked-set", BlockedQueueOk(S))
    \cup Chk("C07.blocked-has-finished", \A j \in DOMAIN S.cu :
            S.cu[j].blk => S.cu[j].se # NONE /\ S.cu[j].se <= S.now /\ S.cu[j].dest \in 1..NN(S))

----------------------------------------------------------------------------
(* C10 sampled inputs honoured *)

F_C10_step(cfg, pre, post) ==
    LET ias == StepsOf(post, "ia")
        bts == StepsOf(post, "batch")
        isArr == post.ev.kind = "arrival"
        n == post.ev.node
        k == post.ev.cls
    IN Chk("C10.arrival-draws",
           IF isArr THEN Len(ias) = 1 /\ Len(bts) = 1 /\ ias[1].n = n /\ ias[1].x = k
                         /\ bts[1].n = n /\ bts[1].x = k
           ELSE ias = <<>> /\ bts = <<>>)
       \cup Chk("C10.distributions-see-the-current-time", \A a \in DOMAIN post.steps :
           \* time-dependent distributions are handed the date of the event in which they are sampled
           post.steps[a].k \in {"ia", "batch", "svc", "pat"} => post.steps[a].f = post.now)
       \cup Chk("C10.batch-size", isArr /\ Len(bts) = 1 => post.created - pre.created = bts[1].y)
       \cup Chk("C10.arrival-dates-partial-sums",
           IF isArr /\ Len(ias) = 1 /\ n \in DOMAIN pre.arr /\ k \in DOMAIN pre.arr[n]
           THEN post.ev.date = pre.arr[n][k] /\ post.arr[n][k] = pre.arr[n][k] + ias[1].y
                /\ \A m \in DOMAIN pre.arr : \A c \in DOMAIN pre.arr[m] :
                      (m # n \/ c # k) => post.arr[m][c] = pre.arr[m][c]
           ELSE ~isArr => post.arr = pre.arr)
       \cup Chk("C10.no-arrival-without-creation", ~isArr => post.created = pre.created)
       \cup Chk("C10.service-draw-at-start", \A a \in IdxOf(post, "svc") :
              LET s == post.steps[a]
              IN s.f = post.now
                 /\ \E b \in {a - 1, a + 1} \cap DOMAIN post.steps :
                       post.steps[b].k = "start" /\ post.steps[b].i = s.i /\ post.steps[b].n = s.n)
       \cup Chk("C10.service-lasts-the-sample", \A a \in IdxOf(post, "svc") :
              LET s == post.steps[a]
              IN IsLive(post, s.i) /\ CuOf(post, s.i).loc = s.n /\ CuOf(post, s.i).ss = post.now
                    /\ cfg.nodes[s.n].kind = "std"
                 => CuOf(post, s.i).se = post.now + s.y /\ CuOf(post, s.i).st = s.y)
       \cup Chk("C10.fresh-start-draws", \A a \in IdxOf(post, "start") :
              LET s == post.steps[a]
                  \* a start is the continuation of an interrupted service only if the customer's last record is an
                  \* interruption at this node during this very visit (and the option is not `resample`);
                  \* every other start is fresh and must draw a service time
                  resumption == IsLive(pre, s.i) /\ CuOf(pre, s.i).loc = s.n
                                /\ CuOf(pre, s.i).ltype = "interrupted service" /\ CuOf(pre, s.i).lnode = s.n
                                /\ CuOf(pre, s.i).ldest = NONE /\ CuOf(pre, s.i).larr = CuOf(pre, s.i).arr
                                /\ CuOf(pre, s.i).stm \in {1, 2}
                  interruptedNow == \E b \in 1..(a-1) : post.steps[b].k \in {"interrupt", "preempt"} /\ post.steps[b].i = s.i
                  fresh == ~resumption /\ ~interruptedNow
              IN fresh /\ s.n \in DOMAIN cfg.nodes /\ cfg.nodes[s.n].kind = "std" =>
                   \E b \in {a - 1, a + 1} \cap DOMAIN post.steps :
                       post.steps[b].k = "svc" /\ post.steps[b].i = s.i)
       \cup Chk("C10.record-equals-sampled-service", \A a \in DOMAIN post.recs :
              LET r == post.recs[a]
              IN r.type = "service" /\ IsLive(pre, r.id) /\ CuOf(pre, r.id).loc = r.n
                    /\ CuOf(pre, r.id).ost = NONE /\ CuOf(pre, r.id).ss # NONE
                    /\ r.n \in DOMAIN cfg.nodes /\ cfg.nodes[r.n].kind = "std"
                 => r.ss = CuOf(pre, r.id).ss /\ r.se = CuOf(pre, r.id).se /\ r.st = CuOf(pre, r.id).st)

\* fault part: a draw that is not a non-negative number (logged as NONE, or negative) never takes effect
F_C10_fault(cfg, post) ==
    Chk("C10.invalid-sample-raises", \A a \in DOMAIN post.steps :
           post.steps[a].k \in {"ia", "svc", "batch", "pat"} => post.steps[a].y # NONE /\ post.steps[a].y >= 0)

F_C10_inv(cfg, S) ==
    Chk("C10.end-is-start-plus-sample", \A j \in DOMAIN S.cu :
           LET c == S.cu[j]
           IN c.ss # NONE /\ ~c.intr /\ c.loc \in DOMAIN cfg.nodes /\ cfg.nodes[c.loc].kind = "std"
              => c.st # NONE /\ c.se = c.ss + c.st)

----------------------------------------------------------------------------
(* C04 server exclusivity *)

FiniteServers(cfg, S, n) == cfg.nodes[n].kind \in {"std", "sched"} /\ S.nodes[n].c < INF

F_C04_inv(cfg, S) ==
    Chk("C04.attachment-is-a-bijection", \A n \in 1..NN(S) : FiniteServers(cfg, S, n) =>
          LET sv == S.nodes[n].srv
          IN /\ \A a \in DOMAIN sv : (sv[a].cust # 0) <=> sv[a].busy
             /\ \A a \in DOMAIN sv : sv[a].cust # 0 =>
                    IsLive(S, sv[a].cust) /\ CuOf(S, sv[a].cust).loc = n /\ CuOf(S, sv[a].cust).srv = sv[a].id
             /\ \A a, b \in DOMAIN sv : a # b => sv[a].id # sv[b].id /\ (sv[a].cust # 0 => sv[a].cust # sv[b].cust)
             /\ \A j \in DOMAIN S.cu : S.cu[j].loc = n /\ S.cu[j].srv > 0 =>
                    \E a \in DOMAIN sv : sv[a].id = S.cu[j].srv /\ sv[a].cust = S.cu[j].id)
    \cup Chk("C04.service-in-progress-holds-a-present-server", \A j \in DOMAIN S.cu :
          \* whoever is being served at a finite-server node is attached to a server that is still there
          LET c == S.cu[j]
          IN c.loc \in 1..NN(S) /\ FiniteServers(cfg, S, c.loc) /\ c.ss # NONE /\ ~c.intr => c.srv > 0)
    \cup Chk("C04.at-most-c-in-service", \A n \in 1..NN(S) : FiniteServers(cfg, S, n) =>
          LET sv == S.nodes[n].srv
              onduty == {a \in DOMAIN sv : ~sv[a].off}
              served == {j \in DOMAIN S.cu : S.cu[j].loc = n /\ S.cu[j].srv > 0}
          IN Cardinality(onduty) = S.nodes[n].c /\ Cardinality(served) <= Len(sv)
             /\ (cfg.nodes[n].kind = "std" => Len(sv) = cfg.nodes[n].c))
    \cup Chk("C04.counter-of-customers-in-service", \A n \in 1..NN(S) :
          FiniteServers(cfg, S, n) /\ ~HasReroute(cfg) =>
             S.nodes[n].insvc = Cardinality({j \in DOMAIN S.cu : S.cu[j].loc = n /\ S.cu[j].srv > 0}))

F_C04_step(cfg, pre, post) ==
    Chk("C04.server-stays-until-departure", \A n \in 1..NN(pre) : FiniteServers(cfg, pre, n) =>
          \A a \in DOMAIN pre.nodes[n].srv :
             LET s == pre.nodes[n].srv[a]
                 taken == \E b \in DOMAIN post.steps : post.steps[b].i = s.cust /\ post.steps[b].n = n
                                                        /\ post.steps[b].k \in {"release", "preempt", "interrupt"}
             IN s.cust # 0 /\ ~taken /\ IsLive(post, s.cust) =>
                   CuOf(post, s.cust).srv = s.id /\ CuOf(post, s.cust).loc = n
                   /\ \E b \in DOMAIN post.nodes[n].srv : post.nodes[n].srv[b].id = s.id
                                                           /\ post.nodes[n].srv[b].cust = s.cust)
    \cup Chk("C04.detach-only-at-departure-or-preemption", \A a \in IdxOf(post, "detach") :
          LET s == post.steps[a]
          IN \E b \in 1..(a-1) : post.steps[b].i = s.i /\ post.steps[b].n = s.n
                                  /\ post.steps[b].k \in {"release", "preempt"})
    \cup Chk("C04.attach-only-free-server", \A a \in IdxOf(post, "attach") :
          \* the server is free at that moment: free before the event and not attached since, or detached since
          LET s == post.steps[a]
              mine == {b \in 1..(a-1) : post.steps[b].n = s.n /\ post.steps[b].s = s.s
                                         /\ post.steps[b].k \in {"attach", "detach"}}
              wasFree == \A b \in DOMAIN pre.nodes[s.n].srv :
                            pre.nodes[s.n].srv[b].id = s.s => pre.nodes[s.n].srv[b].cust = 0
          IN s.n \in 1..NN(pre) /\
             IF mine = {} THEN wasFree ELSE post.steps[SetMax(mine)].k = "detach")
    \cup Chk("C04.attach-only-present-server", \A a \in IdxOf(post, "attach") :
          \* the server belongs to the node: it is there after the event, or was there before and is removed later in it
          LET s == post.steps[a]
          IN s.n \in 1..NN(post) /\ FiniteServers(cfg, post, s.n) =>
                \/ \E b \in DOMAIN post.nodes[s.n].srv : post.nodes[s.n].srv[b].id = s.s
                \/ /\ \E b \in DOMAIN pre.nodes[s.n].srv : pre.nodes[s.n].srv[b].id = s.s
                   /\ \E b \in (a+1)..Len(post.steps) : post.steps[b].k = "kill" /\ post.steps[b].n = s.n
                                                          /\ post.steps[b].s = s.s)
    \cup Chk("C04.record-names-the-attached-server", \A a \in DOMAIN post.recs :
          LET r == post.recs[a]
          IN r.type \in {"service", "interrupted service"} /\ r.sid > 0 /\ r.n \in 1..NN(pre)
                /\ IsLive(pre, r.id) /\ CuOf(pre, r.id).loc = r.n /\ CuOf(pre, r.id).srv > 0
                /\ ~(\E b \in 1..(a-1) : post.recs[b].id = r.id)    \* (a later record of the same event belongs to a new visit)
             => r.sid = CuOf(pre, r.id).srv /\ r.ss = CuOf(pre, r.id).ss)

\* utilisation (runs without pre-emption, one simulate_until_max_time call): the observer integrates, from the
\* attach / detach / kill micro-steps alone, the time servers spent attached (ob.busy) and present (ob.tot);
\* fin = logged report of the code per node: [un, ud] = server_utilisation as an exact fraction (ud = 0: None)
Dom_C04util(cfg) == cfg.stop = "time" /\ ~HasPriorityPreempt(cfg) /\ ~HasPreemptiveSchedule(cfg) /\ cfg.exact = 0
                    /\ \A n \in DOMAIN cfg.nodes : cfg.nodes[n].kind \in {"std", "sched"}

F_C04_final(cfg, last, outcome, ob, fin) ==
    IF ~Dom_C04util(cfg) \/ outcome # "returned" THEN {}
    ELSE Chk("C04.utilisation-is-attached-over-present-time", \A n \in 1..NN(last) :
            last.nodes[n].c < INF =>
               LET T == cfg.T
                   stillAtt == SelectSeq(ob.att, LAMBDA a : a[1] = n)
                   busy == ob.busy[n] + SumSeq([a \in DOMAIN stillAtt |-> T - stillAtt[a][3]])
                   tot == ob.tot[n] + SumSeq([a \in DOMAIN last.nodes[n].srv |-> T - last.nodes[n].srv[a].start])
               IN IF fin[n].ud = 0 THEN tot = 0 \/ last.nodes[n].c = 0
                  ELSE 0 <= busy /\ busy <= tot /\ fin[n].un * tot = busy * fin[n].ud)

----------------------------------------------------------------------------
(* C12 server schedules and slotted services follow the declared timetable *)

\* closed form, independent of the generator transcription in Ciw.tla
Prescribed(sc, t) ==
    IF t < sc.off THEN 0
    ELSE LET m == Len(sc.ends)
             u == (t - sc.off) % sc.ends[m]
             j == SetMin({a \in 1..m : u < sc.ends[a]})
         IN sc.nums[j]

SlotIndexAt(sl, t) == {a \in DOMAIN sl.slots : t - sl.off - sl.slots[a] >= 0
                                               /\ (t - sl.off - sl.slots[a]) % sl.slots[Len(sl.slots)] = 0}

F_C12_inv(cfg, S) ==
    Chk("C12.on-duty-as-prescribed", \A n \in 1..NN(S) :
          cfg.nodes[n].kind = "sched" /\ S.nodes[n].shd > S.now =>
             LET sv == S.nodes[n].srv
             IN S.nodes[n].c = Prescribed(cfg.nodes[n].sched, S.now)
                /\ Cardinality({a \in DOMAIN sv : ~sv[a].off}) = Prescribed(cfg.nodes[n].sched, S.now))
    \cup Chk("C12.next-change-is-the-next-boundary", \A n \in 1..NN(S) :
          cfg.nodes[n].kind = "sched" /\ S.nodes[n].shd > S.now =>
             LET sc == cfg.nodes[n].sched
             IN \* no boundary strictly between now and the announced next change, and the announced date is one
                (\A t \in (S.now + 1)..(Min2(S.nodes[n].shd, S.now + 2 * sc.ends[Len(sc.ends)]) - 1) :
                     t < sc.off \/ ~\E a \in DOMAIN sc.ends : (t - sc.off) % sc.ends[Len(sc.ends)] = sc.ends[a] % sc.ends[Len(sc.ends)])
                /\ (S.nodes[n].shd = sc.off \/
                    \E a \in DOMAIN sc.ends : S.nodes[n].shd >= sc.off /\
                        (S.nodes[n].shd - sc.off) % sc.ends[Len(sc.ends)] = sc.ends[a] % sc.ends[Len(sc.ends)]))
    \cup Chk("C12.capacitated-preemptive-slot-size", \A n \in 1..NN(S) :
          cfg.nodes[n].kind = "slot" /\ cfg.nodes[n].slot.cap /\ cfg.nodes[n].slot.pre # 0
             /\ S.ev.kind = "slotted_service" /\ S.ev.node = n
          => LET idx == SlotIndexAt(cfg.nodes[n].slot, S.now)
             IN idx # {} /\ Cardinality({j \in DOMAIN S.cu : S.cu[j].loc = n /\ S.cu[j].ss # NONE})
                              <= cfg.nodes[n].slot.sizes[SetMin(idx)])

F_C12_step(cfg, pre, post) ==
    LET starts == IdxOf(post, "start")
        isShift == post.ev.kind = "shift_change"
        n0 == post.ev.node
    IN Chk("C12.start-needs-on-duty-server", \A a \in starts :
             LET s == post.steps[a]
             IN s.n \in 1..NN(post) /\ cfg.nodes[s.n].kind = "sched" =>
                   s.s > 0 /\ \E b \in DOMAIN post.nodes[s.n].srv :
                                 post.nodes[s.n].srv[b].id = s.s /\ ~post.nodes[s.n].srv[b].off)
       \cup Chk("C12.timetable-event-first-among-the-node's-simultaneous-events",
             \* a shift change / slot of node n that is due now is executed before any other event of node n
             \* (documented order of simultaneous events at one node); otherwise services end, start or renege
             \* under the server numbers of the shift that is already over
             n0 \in 1..NN(pre) /\ cfg.nodes[n0].kind \in {"sched", "slot"}
                /\ post.ev.kind \in {"end_service", "renege", "class_change"}
             => pre.nodes[n0].shd > post.ev.date)
       \cup Chk("C12.shift-change-at-declared-date",
             isShift /\ n0 \in 1..NN(pre) /\ cfg.nodes[n0].kind = "sched" =>
                post.ev.date = pre.nodes[n0].shd
                /\ post.nodes[n0].c = Prescribed(cfg.nodes[n0].sched, post.now))
       \cup Chk("C12.non-preemptive-overtime",
             \* servers busy at a non-pre-emptive shift end keep their customer and are marked off duty
             isShift /\ n0 \in 1..NN(pre) /\ cfg.nodes[n0].kind = "sched" /\ cfg.nodes[n0].sched.pre = 0 =>
                \A a \in DOMAIN pre.nodes[n0].srv :
                   LET s == pre.nodes[n0].srv[a]
                   IN s.cust # 0 =>
                        (\E b \in DOMAIN post.nodes[n0].srv : post.nodes[n0].srv[b].id = s.id /\ post.nodes[n0].srv[b].off
                              /\ post.nodes[n0].srv[b].cust = s.cust /\ post.nodes[n0].srv[b].send = post.now)
                        /\ ~\E b \in IdxOf(post, "interrupt") : post.steps[b].i = s.cust)
       \cup Chk("C12.overtime-recorded", \A n \in 1..NN(pre) :
             \* every server retired at or after a non-pre-emptive shift end leaves one overtime entry
             \* (the statement does not fix the reported amount; the amount is compared by the refinement check)
             cfg.nodes[n].kind = "sched" /\ cfg.nodes[n].sched.pre = 0 =>
                Len(post.nodes[n].ot) = Len(pre.nodes[n].ot)
                                        + Cardinality({a \in IdxOf(post, "kill") : post.steps[a].n = n}))
       \cup Chk("C12.preemptive-interrupts-at-shift-end",
             isShift /\ n0 \in 1..NN(pre) /\ cfg.nodes[n0].kind = "sched" /\ cfg.nodes[n0].sched.pre # 0 =>
                \A a \in DOMAIN pre.nodes[n0].srv :
                   LET s == pre.nodes[n0].srv[a]
                   IN s.cust # 0 =>
                        (\E b \in IdxOf(post, "interrupt") : post.steps[b].i = s.cust)
                        /\ (\E b \in DOMAIN post.recs : post.recs[b].id = s.cust
                                /\ post.recs[b].type = "interrupted service" /\ post.recs[b].exit = pre.nodes[n0].shd))
       \cup Chk("C12.interrupted-before-fresh", \A a \in starts :
             \* a fresh customer starts at a scheduled node only when no interrupted customer is left waiting there
             LET s == post.steps[a]
                 wasIntr == (IsLive(pre, s.i) /\ CuOf(pre, s.i).intr)
                            \/ (\E b \in 1..(a-1) : post.steps[b].k = "interrupt" /\ post.steps[b].i = s.i)
                            \* a higher-priority customer that pre-empts takes a busy server: not a restart after a shift
                            \/ (\E b \in 1..(a-1) : post.steps[b].k = "preempt" /\ post.steps[b].j = s.i)
             IN s.n \in 1..NN(post) /\ cfg.nodes[s.n].kind = "sched" /\ cfg.nodes[s.n].sched.pre \in {1, 2, 3} /\ ~wasIntr
                => \* interrupted customers still waiting after the event would have had to go first
                   post.nodes[s.n].intr = <<>>)
       \cup Chk("C12.slotted-start-only-at-slot", \A a \in starts :
             LET s == post.steps[a]
             IN s.n \in 1..NN(post) /\ cfg.nodes[s.n].kind = "slot" =>
                   post.ev.kind = "slotted_service" /\ post.ev.node = s.n
                   /\ SlotIndexAt(cfg.nodes[s.n].slot, post.now) # {})
       \cup Chk("C12.slot-size-respected",
             post.ev.kind = "slotted_service" /\ n0 \in 1..NN(pre) /\ cfg.nodes[n0].kind = "slot" =>
                LET sl == cfg.nodes[n0].slot
                    idx == SlotIndexAt(sl, post.now)
                    nst == Cardinality({a \in starts : post.steps[a].n = n0})
                    carried == Cardinality({j \in DOMAIN pre.cu : pre.cu[j].loc = n0 /\ pre.cu[j].ss # NONE})
                    waiting == Cardinality({j \in DOMAIN pre.cu : pre.cu[j].loc = n0 /\ pre.cu[j].ss = NONE})
                IN idx # {} /\
                   LET size == sl.sizes[SetMin(idx)]
                   IN nst <= size
                      /\ (~sl.cap => nst = Min2(size, waiting))
                      /\ (sl.cap /\ sl.pre = 0 => nst = Min2(Max2(size - carried, 0), waiting)))

----------------------------------------------------------------------------
(* C05 work conservation *)

HasServers(cfg, n) == cfg.nodes[n].kind \in {"std", "sched"}

F_C05_inv(cfg, S) ==
    Chk("C05.no-idle-server-while-waiting", \A n \in 1..NN(S) :
          HasServers(cfg, n) /\ S.nodes[n].c < INF =>
             LET waiting == {j \in DOMAIN S.cu : S.cu[j].loc = n /\ (S.cu[j].srv = 0 \/ S.cu[j].srv <= -100)}
                 idle == {a \in DOMAIN S.nodes[n].srv : ~S.nodes[n].srv[a].off /\ ~S.nodes[n].srv[a].busy}
             IN waiting # {} => idle = {})
    \cup Chk("C05.infinite-servers-serve-at-once", \A j \in DOMAIN S.cu :
          LET c == S.cu[j]
          IN c.loc \in 1..NN(S) /\ HasServers(cfg, c.loc) /\ S.nodes[c.loc].c >= INF
             => c.ss # NONE /\ c.ss = c.arr)

F_C05_step(cfg, pre, post) ==
    Chk("C05.start-at-this-instant", \A a \in IdxOf(post, "start") : post.steps[a].x = post.now)
    \cup Chk("C05.zero-wait-on-free-server", \A a \in IdxOf(post, "accept") :
          \* a customer accepted by a node where, in the resulting state, it is in service started now
          LET s == post.steps[a]
          IN IsLive(post, s.i) /\ CuOf(post, s.i).loc = s.n /\ CuOf(post, s.i).ss # NONE
                /\ CuOf(post, s.i).arr = post.now /\ ~CuOf(post, s.i).blk
             => CuOf(post, s.i).ss >= CuOf(post, s.i).arr)

----------------------------------------------------------------------------
(* C08 service order *)

\* every configuration is in the domain; at nodes with a pre-emptive schedule (or capacitated pre-emptive slots)
\* interrupted customers are resumed first without a choice (C12): those resumptions are exempt below
Dom_C08(cfg) == TRUE

F_C08_step(cfg, pre, post) ==
    IF ~Dom_C08(cfg) THEN {}
    ELSE
    LET chs == {a \in IdxOf(post, "choose") : post.steps[a].i # 0}
        FirstNonEmpty(wq) == {p \in DOMAIN wq : wq[p] # <<>> /\ \A r \in 1..(p-1) : wq[r] = <<>>}
        \* arrival date of a customer that stayed at the node through the whole event (NONE otherwise)
        arrOf(i) == IF IsLive(post, i) /\ IsLive(pre, i) /\ CuOf(pre, i).arr = CuOf(post, i).arr
                       /\ CuOf(pre, i).loc = CuOf(post, i).loc
                    THEN CuOf(post, i).arr ELSE NONE
    IN Chk("C08.highest-priority-class-first", \A a \in chs :
             LET s == post.steps[a]
                 ps == FirstNonEmpty(s.wq)
             IN ps # {} /\ InSeq(s.wq[CHOOSE p \in ps : TRUE], s.i))
       \cup Chk("C08.waiting-lists-follow-the-declared-priorities", \A a \in chs :
             \* the priority list a waiting customer sits in is the priority the network declares for its class
             LET s == post.steps[a]
             IN \A p \in DOMAIN s.wq : \A b \in DOMAIN s.wq[p] :
                   LET i == s.wq[p][b]
                       c == IF IsLive(post, i) THEN CuOf(post, i) ELSE IF IsLive(pre, i) THEN CuOf(pre, i) ELSE [cls |-> 0, blk |-> TRUE]
                   IN c.cls \in 1..cfg.K /\ IsLive(pre, i) /\ IsLive(post, i) /\ CuOf(pre, i).cls = CuOf(post, i).cls
                      => cfg.prio[c.cls] = p - 1)
       \cup Chk("C08.discipline-sees-exactly-the-waiting-class", \A a \in chs :
             LET s == post.steps[a]
                 ps == FirstNonEmpty(s.wq)
             IN a > 1 /\ post.steps[a-1].k = "disc" /\ post.steps[a-1].i = s.i
                /\ ps # {} /\ post.steps[a-1].w = s.wq[CHOOSE p \in ps : TRUE])
       \cup Chk("C08.discipline-choice", \A a \in chs :
             LET s == post.steps[a]
                 ps == FirstNonEmpty(s.wq)
                 w == IF ps = {} THEN <<>> ELSE s.wq[CHOOSE p \in ps : TRUE]
                 d == cfg.nodes[s.n].disc
             IN w # <<>> /\ (IF d = "FIFO" THEN s.i = w[1]
                             ELSE IF d = "LIFO" THEN s.i = w[Len(w)]
                             ELSE InSeq(w, s.i)))
       \cup Chk("C08.fifo-earliest-arrival", \A a \in chs :
             LET s == post.steps[a]
                 ps == FirstNonEmpty(s.wq)
                 w == IF ps = {} THEN <<>> ELSE s.wq[CHOOSE p \in ps : TRUE]
             IN cfg.nodes[s.n].disc = "FIFO" /\ ~(\E x, y \in DOMAIN cfg.cct : cfg.cct[x][y] # <<>>)
                => \A b \in DOMAIN w : arrOf(s.i) = NONE \/ arrOf(w[b]) = NONE \/ arrOf(s.i) <= arrOf(w[b]))
       \cup Chk("C08.lifo-latest-arrival", \A a \in chs :
             LET s == post.steps[a]
                 ps == FirstNonEmpty(s.wq)
                 w == IF ps = {} THEN <<>> ELSE s.wq[CHOOSE p \in ps : TRUE]
             IN cfg.nodes[s.n].disc = "LIFO" /\ ~(\E x, y \in DOMAIN cfg.cct : cfg.cct[x][y] # <<>>)
                => \A b \in DOMAIN w : arrOf(s.i) = NONE \/ arrOf(w[b]) = NONE \/ arrOf(s.i) >= arrOf(w[b]))
       \cup Chk("C08.chosen-one-is-started", \A a \in chs :
             \* the next service start (attach/start) before any other choice concerns the chosen customer
             LET s == post.steps[a]
                 nxt == {b \in (a+1)..Len(post.steps) : post.steps[b].k \in {"attach", "start", "choose", "accept"}
                                                          /\ post.steps[b].n = s.n}
                 \* (an interrupted customer that gets a server back is restarted without a new choice, also after a
                 \*  choice that found no free server earlier in the same event)
                 resumedAt(b) == (IsLive(pre, post.steps[b].i) /\ CuOf(pre, post.steps[b].i).intr
                                    /\ CuOf(pre, post.steps[b].i).loc = s.n)
                                 \/ \E c \in 1..(b-1) : post.steps[c].k = "interrupt" /\ post.steps[c].i = post.steps[b].i
             IN nxt # {} /\ post.steps[SetMin(nxt)].k \in {"attach", "start"}
                => post.steps[SetMin(nxt)].i = s.i \/ resumedAt(SetMin(nxt)))
       \cup Chk("C08.every-queue-start-was-chosen", \A a \in IdxOf(post, "attach") :
             \* a server is attached only to the customer last returned by choose_next_customer at that node,
             \* or to a customer whose priority just rose by a class change while waiting and who pre-empts
             LET s == post.steps[a]
                 prev == {b \in 1..(a-1) : post.steps[b].k = "choose" /\ post.steps[b].n = s.n}
                 byClassChange == post.ev.kind = "class_change"
                                  /\ \E b \in 1..(a-1) : post.steps[b].k = "preempt" /\ post.steps[b].j = s.i
                 resumed == (IsLive(pre, s.i) /\ CuOf(pre, s.i).intr /\ CuOf(pre, s.i).loc = s.n)
                            \/ \E b \in 1..(a-1) : post.steps[b].k = "interrupt" /\ post.steps[b].i = s.i
             IN (prev # {} /\ post.steps[SetMax(prev)].i = s.i) \/ byClassChange \/ resumed)
       \cup Chk("C08.slotted-start-was-chosen", \A a \in IdxOf(post, "start") :
             \* at slotted nodes (no server objects, hence no attach step) a customer starts only if it was the one
             \* just returned by choose_next_customer, or an interrupted customer being resumed
             LET s == post.steps[a]
                 prev == {b \in 1..(a-1) : post.steps[b].k \in {"choose", "start"} /\ post.steps[b].n = s.n}
                 resumed == (IsLive(pre, s.i) /\ CuOf(pre, s.i).intr /\ CuOf(pre, s.i).ss = NONE)
                            \/ \E b \in 1..(a-1) : post.steps[b].k = "interrupt" /\ post.steps[b].i = s.i
             IN s.n \in DOMAIN cfg.nodes /\ cfg.nodes[s.n].kind = "slot" /\ ~resumed
                => prev # {} /\ post.steps[SetMax(prev)].k = "choose" /\ post.steps[SetMax(prev)].i = s.i)
       \cup Chk("C08.class-change-preemptor-is-first", \A a \in IdxOf(post, "preempt") :
             \* after the event nobody of higher, or equal priority and earlier arrival (FIFO), is left waiting
             LET s == post.steps[a]
             IN post.ev.kind = "class_change" /\ IsLive(post, s.j) =>
                  \A j \in DOMAIN post.cu :
                     LET w == post.cu[j]
                         me == CuOf(post, s.j)
                     IN w.loc = s.n /\ w.srv = 0 /\ w.id # s.i =>
                          w.prio > me.prio \/ (w.prio = me.prio /\ cfg.nodes[s.n].disc # "FIFO"))

----------------------------------------------------------------------------
(* C09 routing and class-change fidelity.  rt[k][n] = number of routing decisions already taken by *)
(* the Cycle router of class k at node n before this event.                                        *)

PosDests(dests, probs) ==
    LET m == Len(probs)
    IN IF probs[m] = DEN /\ (\A a \in 1..(m-1) : probs[a] = 0) THEN {dests[m]}
       ELSE {dests[a] : a \in {b \in 1..m : probs[b] > 0}}

\* Waiting line / population of node m "at that instant".  For the first routing decision of an event (the
\* end-of-service that opens it) the instant is the pre-state, and the waiting line is computed from the true
\* configuration: customers present minus customers holding a server or a slot (blocked ones included), not
\* from the engine's own number_in_service counter.  For later decisions of a cascade the values recorded by
\* the routing wrapper at the call are used.
TrueLine(pre, m, lb) ==
    LET here == {j \in DOMAIN pre.cu : pre.cu[j].loc = m}
        served == {j \in here : pre.cu[j].srv > 0 \/ pre.cu[j].srv = -1 \/ (pre.nodes[m].c >= INF /\ pre.cu[j].ss # NONE)}
    IN IF lb THEN Cardinality(here) ELSE Cardinality(here) - Cardinality(served)

SizeAt(pre, post, a, m, lb) ==
    LET s == post.steps[a]
        first == ~\E b \in 1..(a-1) : post.steps[b].k \in {"release", "accept", "block", "attach", "detach", "interrupt"}
    IN IF first /\ m \in 1..NN(pre) THEN TrueLine(pre, m, lb)
       ELSE IF lb THEN s.wq[1][m] ELSE s.wq[1][m] - s.wq[2][m]

MinimalIn(pre, post, a, ds, lb) ==
    LET s == post.steps[a]
    IN InSeq(ds, s.d) /\ s.d \in DOMAIN s.wq[1]
       /\ \A b \in DOMAIN ds : ds[b] \in DOMAIN s.wq[1] /\ SizeAt(pre, post, a, s.d, lb) <= SizeAt(pre, post, a, ds[b], lb)

FirstMinimal(pre, post, a, ds, lb) ==
    LET s == post.steps[a]
    IN \A b \in DOMAIN ds : ds[b] = s.d =>
          \A c \in 1..(b-1) : SizeAt(pre, post, a, ds[c], lb) > SizeAt(pre, post, a, s.d, lb)

\* the routing object of class k (classes given the same object share its state, e.g. a Cycle position)
RouterKey(cfg, k) == IF cfg.route[k].same # 0 THEN cfg.route[k].same ELSE k

\* where reneging customers of class k go from node n: the exit unless the (user-defined) router jockeys
JockDest(cfg, k, n) ==
    IF cfg.route[k].kind = "nr" /\ cfg.route[k].routers[n].jock # 0 THEN cfg.route[k].routers[n].jock ELSE EXIT

\* is routing decision at step index a allowed?  (s.x = class whose router decided)
RouteOk(cfg, pre, post, rt, a) ==
    LET s == post.steps[a]
        N == cfg.N
        k == s.x
    IN k \in 1..cfg.K /\ s.n \in 1..N /\
       LET r == cfg.route[k]
           \* number of earlier decisions of the same (class, node) router inside this event
           earlier == Cardinality({b \in 1..(a-1) : post.steps[b].k = "route" /\ post.steps[b].x \in 1..cfg.K
                                                     /\ RouterKey(cfg, post.steps[b].x) = RouterKey(cfg, k)
                                                     /\ post.steps[b].n = s.n /\ post.steps[b].f # 2})
           \* the customer's remaining route before this decision
           rte == IF IsLive(pre, s.i) THEN CuOf(pre, s.i).route
                  ELSE IF IsLive(post, s.i) THEN <<>> ELSE <<>>
       IN IF s.f = 2 THEN s.d = JockDest(cfg, k, s.n)   \* built-in routers jockey to the exit
          ELSE IF r.kind = "tm" THEN
               s.d \in PosDests([a2 \in 1..(N+1) |-> IF a2 <= N THEN a2 ELSE EXIT],
                                [a2 \in 1..(N+1) |-> IF a2 <= N THEN r.P[s.n][a2] ELSE DEN - SumSeq(r.P[s.n])])
          ELSE IF r.kind = "nr" THEN
               LET nr == r.routers[s.n]
               IN IF nr.t = "prob" THEN
                     LET m == Len(nr.dests)
                     IN s.d \in PosDests([a2 \in 1..(m+1) |-> IF a2 <= m THEN nr.dests[a2] ELSE EXIT],
                                         [a2 \in 1..(m+1) |-> IF a2 <= m THEN nr.probs[a2] ELSE DEN - SumSeq(nr.probs)])
                  ELSE IF nr.t = "direct" THEN s.d = nr.to
                  ELSE IF nr.t = "leave" THEN s.d = EXIT
                  ELSE IF nr.t \in {"jsq", "lb"} THEN
                       MinimalIn(pre, post, a, nr.dests, nr.t = "lb")
                       /\ (nr.tie = "order" => FirstMinimal(pre, post, a, nr.dests, nr.t = "lb"))
                  ELSE \* cycle
                       s.d = nr.cyc[((rt[RouterKey(cfg, k)][s.n] + earlier) % Len(nr.cyc)) + 1]
          ELSE IF r.kind = "pb" THEN
               (IF rte = <<>> THEN s.d = EXIT ELSE s.d = rte[1][1])
               /\ (IsLive(post, s.i) /\ earlier = 0 /\ rte # <<>> => CuOf(post, s.i).route = Tail(rte))
          ELSE \* fpb
               IF rte = <<>> THEN s.d = EXIT
               ELSE /\ InSeq(rte[1], s.d)
                    /\ (r.choice = "jsq" => MinimalIn(pre, post, a, rte[1], FALSE))
                    /\ (r.choice = "lb" => MinimalIn(pre, post, a, rte[1], TRUE))
                    /\ (IsLive(post, s.i) =>
                          LET left == SelectSeq(rte[1], LAMBDA m : m # s.d)
                          IN CuOf(post, s.i).route = IF r.rule = "any" \/ left = <<>> THEN Tail(rte)
                                                     ELSE <<left>> \o Tail(rte))

\* customers routed more than once inside one event (cascades never do that; reroute chains could)
SingleRoutePerCustomer(post) ==
    \A a, b \in IdxOf(post, "route") : a # b => post.steps[a].i # post.steps[b].i

F_C09_step(cfg, pre, post, rt) ==
    LET rts == IdxOf(post, "route")
    IN Chk("C09.transition-allowed", \A a \in rts :
             (cfg.route[1].kind \in {"pb", "fpb"} => SingleRoutePerCustomer(post)) => RouteOk(cfg, pre, post, rt, a))
       \cup Chk("C09.moves-where-routed", \A a \in rts :
             LET s == post.steps[a]
                 nxt == {b \in (a+1)..Len(post.steps) : post.steps[b].i = s.i
                                                         /\ post.steps[b].k \in {"release", "block", "accept"}}
             IN nxt # {} => post.steps[SetMin(nxt)].d = s.d \/
                            (post.steps[SetMin(nxt)].k = "accept" /\ post.steps[SetMin(nxt)].n = s.d))
       \cup Chk("C09.class-change-allowed", \A a \in IdxOf(post, "cchg") :
             LET s == post.steps[a]
                 ccm == cfg.nodes[s.n].ccm
             IN ccm # <<>> /\ s.x \in 1..cfg.K /\ s.y \in 1..cfg.K
                /\ s.y \in PosDests([k \in 1..cfg.K |-> k], ccm[s.x]))
       \cup Chk("C09.initial-route", \A a \in IdxOf(post, "routefn") :
             LET s == post.steps[a]
             IN IsLive(post, s.i) /\ CuOf(post, s.i).nrec = 0 /\ CuOf(post, s.i).loc = post.ev.node
                   /\ (~\E b \in rts : post.steps[b].i = s.i)
                => CuOf(post, s.i).route = cfg.route[s.x].routes[s.y + 1])
       \cup Chk("C09.class-only-changes-by-matrix", \A j \in DOMAIN post.cu :
             LET c == post.cu[j]
             IN IsLive(pre, c.id) /\ CuOf(pre, c.id).cls # c.cls
                => (\E a \in IdxOf(post, "cchg") : post.steps[a].i = c.id)
                   \/ (\E a \in IdxOf(post, "ccw") : post.steps[a].i = c.id))

F_C09_inv(cfg, S) ==
    Chk("C09.priority-of-current-class", \A j \in DOMAIN S.cu :
           S.cu[j].cls \in 1..cfg.K /\ S.cu[j].prio = cfg.prio[S.cu[j].cls])
    \cup Chk("C09.queued-in-own-priority-list", \A j \in DOMAIN S.cu :
           LET c == S.cu[j]
           IN ~c.blk /\ c.loc \in 1..NN(S) /\ (c.prio + 1) \in DOMAIN S.nodes[c.loc].q
              => InSeq(S.nodes[c.loc].q[c.prio + 1], c.id))

----------------------------------------------------------------------------
(* C11 pre-emptive priorities *)

Dom_C11(cfg) == HasPriorityPreempt(cfg) /\ ~HasReroute(cfg)
                /\ (\A n \in DOMAIN cfg.nodes : cfg.nodes[n].kind = "std" /\ cfg.nodes[n].qcap >= INF)
                /\ cfg.syscap >= INF

F_C11_inv(cfg, S) ==
    IF ~Dom_C11(cfg) THEN {}
    ELSE Chk("C11.no-priority-inversion", \A n \in 1..NN(S) :
            cfg.nodes[n].pp # 0 /\ S.nodes[n].c < INF =>
               \A w, s \in DOMAIN S.cu :
                  ~(S.cu[w].loc = n /\ S.cu[s].loc = n /\ S.cu[w].srv = 0 /\ S.cu[s].srv > 0
                    /\ ~S.cu[s].blk /\ S.cu[s].prio > S.cu[w].prio))

F_C11_step(cfg, pre, post) ==
    IF ~Dom_C11(cfg) THEN {}
    ELSE
    LET pre_ == IdxOf(post, "preempt")
    IN Chk("C11.victim-lowest-priority-latest-start", \A a \in pre_ :
             LET s == post.steps[a]
                 mine == {b \in DOMAIN s.wq : s.wq[b][2] = s.i}
             IN mine # {} /\
                LET v == s.wq[CHOOSE b \in mine : TRUE]
                IN (\A b \in DOMAIN s.wq : s.wq[b][3] <= v[3])
                   /\ (\A b \in DOMAIN s.wq : s.wq[b][3] = v[3] => s.wq[b][4] <= v[4]))
       \cup Chk("C11.preemptor-strictly-higher", \A a \in pre_ :
             LET s == post.steps[a]
             IN IsLive(post, s.j) /\ \E b \in DOMAIN s.wq : s.wq[b][2] = s.i /\ CuOf(post, s.j).prio < s.wq[b][3])
       \cup Chk("C11.interruption-recorded", \A a \in pre_ :
             LET s == post.steps[a]
                 mine == SelectSeq(post.recs, LAMBDA r : r.id = s.i /\ r.type = "interrupted service" /\ r.n = s.n)
             IN mine # <<>> /\ mine[1].exit = post.now
                /\ (\E b \in DOMAIN s.wq : s.wq[b][2] = s.i /\ mine[1].ss = s.wq[b][4]))
       \cup Chk("C11.remaining-time-exact", \A a \in pre_ :
             LET s == post.steps[a]
             IN IsLive(pre, s.i) /\ IsLive(post, s.i) /\ CuOf(pre, s.i).se # NONE /\ CuOf(post, s.i).srv = 0
                => CuOf(post, s.i).left = CuOf(pre, s.i).se - post.now
                   /\ CuOf(post, s.i).ost = CuOf(pre, s.i).st
                   /\ CuOf(post, s.i).stm = cfg.nodes[s.n].pp)
       \cup Chk("C11.obligation-kept-while-waiting", \A j \in DOMAIN pre.cu :
             \* what a victim is owed (option marker, remaining time, original time) does not change while it waits
             LET p == pre.cu[j]
             IN p.stm # 0 /\ p.srv = 0 /\ p.loc \in 1..cfg.N /\ cfg.nodes[p.loc].pp # 0 /\ cfg.nodes[p.loc].kind = "std"
                /\ IsLive(post, p.id) /\ CuOf(post, p.id).loc = p.loc /\ CuOf(post, p.id).arr = p.arr
                /\ ~(\E b \in DOMAIN post.steps : post.steps[b].i = p.id
                                                   /\ post.steps[b].k \in {"start", "preempt", "interrupt", "release", "renege"})
                => LET q == CuOf(post, p.id) IN q.stm = p.stm /\ q.left = p.left /\ q.ost = p.ost)
       \cup Chk("C11.service-after-preemption", \A a \in IdxOf(post, "start") :
             LET s == post.steps[a]
                 drew == \E b \in IdxOf(post, "svc") : post.steps[b].i = s.i
             IN IsLive(pre, s.i) /\ IsLive(post, s.i) /\ CuOf(pre, s.i).loc = s.n /\ CuOf(pre, s.i).stm # 0
                   /\ CuOf(post, s.i).ss = post.now /\ CuOf(post, s.i).srv > 0
                => LET p == CuOf(pre, s.i)
                       q == CuOf(post, s.i)
                   IN IF p.stm = 1 THEN q.st = p.left /\ q.se = post.now + p.left /\ ~drew
                      ELSE IF p.stm = 2 THEN q.st = p.ost /\ q.se = post.now + p.ost /\ ~drew
                      ELSE drew /\ q.se = post.now + q.st)

----------------------------------------------------------------------------
(* C13 reneging and baulking *)

F_C13_step(cfg, pre, post) ==
    LET rn == {a \in IdxOf(post, "pickind") : post.steps[a].f = 1}
    IN Chk("C13.patience-sampled-at-arrival", \A a \in IdxOf(post, "pat") :
             LET s == post.steps[a]
             \* (a customer that starts service on arrival and is pre-empted later in the same event no longer
             \*  reneges - repair of F8 - so its date is reset; found by family `ppren` on the unchanged tree)
             IN (IsLive(post, s.i) /\ CuOf(post, s.i).loc = s.n /\ CuOf(post, s.i).arr = post.now
                 /\ ~(\E b \in IdxOf(post, "preempt") : (b > a /\ post.steps[b].i = s.i)))
                => CuOf(post, s.i).rdate = post.now + s.y)
       \cup Chk("C13.patience-fixed-at-arrival", \A j \in DOMAIN pre.cu :
             \* the reneging date set at arrival does not move while the customer waits there (whatever its class becomes)
             LET p == pre.cu[j]
             IN p.loc \in 1..cfg.N /\ p.srv = 0 /\ p.ss = NONE /\ p.rdate # NONE /\ p.rdate < INF
                /\ IsLive(post, p.id) /\ CuOf(post, p.id).loc = p.loc /\ CuOf(post, p.id).arr = p.arr
                /\ CuOf(post, p.id).ss = NONE
                /\ ~(\E b \in DOMAIN post.steps : post.steps[b].i = p.id
                                                    /\ post.steps[b].k \in {"start", "preempt", "interrupt", "release", "accept"})
                => CuOf(post, p.id).rdate = p.rdate)
       \cup Chk("C13.accept-draws-patience", \A a \in IdxOf(post, "accept") :
             LET s == post.steps[a]
                 has == s.n \in 1..cfg.N /\ IsLive(post, s.i) /\ CuOf(post, s.i).ocls \in 1..cfg.K
                        /\ cfg.patS[s.n][CuOf(post, s.i).ocls] # <<>>
                 nxt == {b \in (a+1)..Len(post.steps) : post.steps[b].k \in {"pat", "accept"}}
             IN has /\ cfg.nodes[s.n].kind = "std" /\ cfg.nodes[s.n].c < INF =>
                   nxt # {} /\ post.steps[SetMin(nxt)].k = "pat" /\ post.steps[SetMin(nxt)].i = s.i)
       \cup Chk("C13.renege-exactly-at-patience", \A a \in rn :
             LET s == post.steps[a]
             IN IsLive(pre, s.i) /\ CuOf(pre, s.i).rdate = post.now /\ CuOf(pre, s.i).srv = 0
                /\ CuOf(pre, s.i).loc = s.n)
       \cup Chk("C13.renege-record-and-destination", \A a \in rn :
             LET s == post.steps[a]
                 mine == SelectSeq(post.recs, LAMBDA r : r.id = s.i /\ r.type = "renege")
                 jd == IF IsLive(pre, s.i) /\ CuOf(pre, s.i).cls \in 1..cfg.K THEN JockDest(cfg, CuOf(pre, s.i).cls, s.n) ELSE EXIT
             IN Len(mine) = 1 /\ mine[1].exit = post.now /\ mine[1].n = s.n
                /\ (IsLive(pre, s.i) => mine[1].wait = post.now - CuOf(pre, s.i).arr)
                /\ (IF jd = EXIT THEN InSeq(post.exit, s.i) /\ ~IsLive(post, s.i)
                    ELSE \E a2 \in IdxOf(post, "accept") : post.steps[a2].i = s.i /\ post.steps[a2].n = jd))
       \cup Chk("C13.no-renege-in-service", \A a \in DOMAIN post.recs :
             post.recs[a].type = "renege" =>
                IsLive(pre, post.recs[a].id) /\ CuOf(pre, post.recs[a].id).srv = 0
                /\ CuOf(pre, post.recs[a].id).ss = NONE)
       \cup Chk("C13.baulk-population", \A a \in IdxOf(post, "bfn") :
             LET s == post.steps[a]
                 before == Cardinality({b \in 1..(a-1) : post.steps[b].k = "accept" /\ post.steps[b].n = s.n})
             IN s.n \in 1..NN(pre) /\ s.x = pre.nodes[s.n].count + before)
       \cup Chk("C13.baulk-iff-draw-below-probability", \A a \in IdxOf(post, "bfn") :
             LET s == post.steps[a]
                 us == {b \in 1..(a-1) : post.steps[b].k = "bu"}
                 outc == {b \in (a+1)..Len(post.steps) : post.steps[b].i = s.i /\ post.steps[b].k \in {"baulk", "send"}}
             IN us # {} /\ outc # {} /\
                LET u == post.steps[SetMax(us)].x
                    o == post.steps[SetMin(outc)].k
                IN (o = "baulk") <=> (u * DEN < s.y * U20))
       \cup Chk("C13.baulk-record", \A a \in IdxOf(post, "baulk") :
             LET s == post.steps[a]
                 mine == RecsOf(post, s.i)
             IN Len(mine) = 1 /\ mine[1].type = "baulk" /\ mine[1].n = s.n /\ mine[1].exit = post.now
                /\ InSeq(post.exit, s.i) /\ ~IsLive(post, s.i))

F_C13_inv(cfg, S) ==
    Chk("C13.nobody-waits-beyond-patience", \A j \in DOMAIN S.cu :
           LET c == S.cu[j]
           IN c.srv = 0 /\ c.ss = NONE /\ c.stm = 0 /\ c.rdate # NONE /\ c.loc \in 1..NN(S)
                 /\ cfg.nodes[c.loc].kind = "std" /\ S.nodes[c.loc].c < INF
                 /\ (\E k \in 1..cfg.K : cfg.patS[c.loc][k] # <<>>)   \* a node with reneging
              => c.rdate >= S.now)

----------------------------------------------------------------------------
(* C14 runs end normally and stop exactly at the horizon / count *)

Counter(cfg, S) ==
    IF cfg.stop = "Complete" THEN S.completed
    ELSE IF cfg.stop = "Finish" THEN S.nexit
    ELSE IF cfg.stop = "Arrive" THEN S.created
    ELSE S.accepted

\* the four counters simulate_until_max_customers may stop on, recomputed from what the event did
F_C14_counters(cfg, pre, post) ==
    LET newExit == (Len(pre.exit) + 1)..Len(post.exit)
        completedNow == {a \in newExit : LET l == LastOf(pre, post, post.exit[a])
                                          IN l.type \in {"service", "interrupted service"} /\ l.dest = EXIT}
        newAccepted == {post.steps[a].i : a \in {b \in IdxOf(post, "accept") : post.steps[b].i > pre.created}}
    IN Chk("C14.counters-are-true",
           post.completed - pre.completed = Cardinality(completedNow)
           /\ post.nexit - pre.nexit = Len(post.exit) - Len(pre.exit)
           /\ post.accepted - pre.accepted = Cardinality(newAccepted)
           /\ post.created - pre.created = Cardinality({post.steps[a].i : a \in IdxOf(post, "admit")}))

F_C14_step(cfg, pre, post) ==
    F_C14_counters(cfg, pre, post) \cup
    IF cfg.stop = "time"
    THEN Chk("C14.only-events-before-horizon", post.ev.date < cfg.T)
    ELSE IF cfg.stop = "deadlock" THEN {}
    ELSE Chk("C14.not-later-than-count", Counter(cfg, pre) < cfg.maxc)

\* last = state after the last executed event, outcome as logged
F_C14_final(cfg, last, outcome) ==
    \* (fault-injection scenarios feed an invalid sample on purpose: there the run must raise, see C10)
    Chk("C14.no-crash", outcome \in {"returned", "truncated", "exhausted"} \/ cfg.fault = 1)
    \cup (IF outcome # "returned" THEN {}
          ELSE IF cfg.stop = "time" THEN Chk("C14.every-event-before-horizon-executed", MinDateOf(last) >= cfg.T)
          ELSE IF cfg.stop = "deadlock" THEN {}
          ELSE Chk("C14.not-earlier-than-count", Counter(cfg, last) >= cfg.maxc))

----------------------------------------------------------------------------
(* C16 pause / resume transparency, on the engine's own state: a stop of the simulation (pseudo-event *)
(* `pause`) changes nothing but the clock and the servers' reported busy time; the utilisation clause  *)
(* of C04 (attached time / present time, integrated by the observer) is evaluated at the end of runs   *)
(* made of several calls exactly as for a single call.                                                 *)

StripSrv(nd) == [nd EXCEPT !.srv = [j \in DOMAIN nd.srv |-> [nd.srv[j] EXCEPT !.bt = 0, !.btw = NONE]]]

F_C16_pause(cfg, pre, post) ==
    Chk("C16.pause-leaves-customers-unchanged", post.cu = pre.cu)
    \cup Chk("C16.pause-leaves-nodes-unchanged",
             Len(post.nodes) = Len(pre.nodes) /\ \A n \in DOMAIN pre.nodes : StripSrv(post.nodes[n]) = StripSrv(pre.nodes[n]))
    \cup Chk("C16.pause-leaves-arrivals-and-exit-unchanged",
             post.arr = pre.arr /\ post.exit = pre.exit /\ post.created = pre.created /\ post.accepted = pre.accepted
             /\ post.completed = pre.completed /\ post.and = pre.and)
    \cup Chk("C16.pause-credit-is-restorable", \A n \in DOMAIN post.nodes : \A j \in DOMAIN post.nodes[n].srv :
             \* a busy server's reported busy time = its busy time before the stop + the service in progress up to T
             LET s == post.nodes[n].srv[j]
             IN s.busy /\ IsLive(post, s.cust) /\ CuOf(post, s.cust).ss # NONE =>
                  s.btw # NONE /\ s.bt = s.btw + (post.ev.date - CuOf(post, s.cust).ss))
    \cup Chk("C16.clock-after-stop", post.now >= pre.now /\ post.now = MinDateOf(pre))

----------------------------------------------------------------------------
(* C17 state trackers equal the true configuration.  gb = current blockages <<from, id, to>> in *)
(* the order they arose (maintained from the observed block / unblock micro-steps).             *)

CountAt(S, n, Test(_)) == Cardinality({j \in DOMAIN S.cu : S.cu[j].loc = n /\ Test(S.cu[j])})

F_C17_inv(cfg, S, gb) ==
    LET t == cfg.tracker
        N == NN(S)
        tr == S.trk
        allNonNeg == (\A a \in DOMAIN tr.a : tr.a[a] >= 0)
                     /\ (\A a \in DOMAIN tr.b : \A b \in DOMAIN tr.b[a] : tr.b[a][b] >= 0)
        cnt(n) == Len(Qs(S, n))
    IN IF t = "none" THEN {}
       ELSE Chk("C17.counts-non-negative", allNonNeg)
       \cup Chk("C17.state-equals-configuration",
             IF t = "system" THEN tr.a = <<SumSeq([n \in 1..N |-> cnt(n)])>>
             ELSE IF t = "node" THEN tr.a = [n \in 1..N |-> cnt(n)]
             ELSE IF t = "subset" THEN tr.a = [a \in DOMAIN cfg.observed |-> cnt(cfg.observed[a] + 1)]
             ELSE IF t = "grouped" THEN
                  tr.a = [g \in DOMAIN cfg.groups |-> SumSeq([a \in DOMAIN cfg.groups[g] |-> cnt(cfg.groups[g][a] + 1)])]
             ELSE IF t = "nodeclass" THEN
                  \* customers are counted under the class of their current visit; a customer that has finished
                  \* service, changed class and is blocked may be shown under either class
                  Len(tr.b) = N /\ \A n \in 1..N :
                     SumSeq(tr.b[n]) = cnt(n) /\ \A k \in 1..cfg.K :
                        LET sure == CountAt(S, n, LAMBDA c : c.cls = k /\ (~c.blk \/ c.pcls = k))
                            maybe == CountAt(S, n, LAMBDA c : c.blk /\ c.pcls # c.cls /\ (c.cls = k \/ c.pcls = k))
                        IN tr.b[n][k] >= sure /\ tr.b[n][k] <= sure + maybe
             ELSE IF t = "naive" THEN
                  tr.b = [n \in 1..N |-> <<CountAt(S, n, LAMBDA c : ~c.blk), CountAt(S, n, LAMBDA c : c.blk)>>]
             ELSE \* matrix: order numbers of the current blockages, consecutive from 1 in blocking order
                  tr.a = [n \in 1..N |-> cnt(n)]
                  /\ tr.inc = Len(gb) + 1
                  /\ tr.m = [a \in 1..N |-> [b \in 1..N |->
                                LET pos == {j \in DOMAIN gb : gb[j][1] = a /\ gb[j][3] = b}
                                    RECURSIVE Asc(_)
                                    Asc(P) == IF P = {} THEN <<>> ELSE <<SetMin(P)>> \o Asc(P \ {SetMin(P)})
                                IN Asc(pos)]])
       \cup Chk("C17.blockage-order-matches-blocked-customers",
             t = "matrix" => Len(gb) = Cardinality({j \in DOMAIN S.cu : S.cu[j].blk})
                              /\ \A j \in DOMAIN gb : IsLive(S, gb[j][2]) /\ CuOf(S, gb[j][2]).blk
                                                        /\ CuOf(S, gb[j][2]).loc = gb[j][1] /\ CuOf(S, gb[j][2]).dest = gb[j][3])

F_C17_step(cfg, pre, post) ==
    IF cfg.tracker = "none" \/ cfg.stop = "deadlock" THEN {}
    ELSE LET changed == <<post.trk.a, post.trk.b, post.trk.m>> # <<pre.trk.a, pre.trk.b, pre.trk.m>>
         IN Chk("C17.history-lists-each-change-once",
                IF changed THEN post.trk.hl = pre.trk.hl + 1 /\ post.trk.ht = post.now
                ELSE post.trk.hl = pre.trk.hl /\ post.trk.ht = pre.trk.ht)
            \cup Chk("C17.history-timestamps-monotone", post.trk.ht >= pre.trk.ht)

\* state_probabilities: hist = <<date, tracker state>> of every change (observer, from the logged states);
\* probs = windows [a, b, res] where res lists the code's share un/ud of each state it returned
F_C17_final(cfg, outcome, hist, probs) ==
    IF cfg.tracker = "none" \/ outcome # "returned" THEN {}
    ELSE
    LET Dur(a, b, st) ==
            \* time spent in state st inside [a, b]: interval j of the history is [t_j, t_{j+1}), the last one open-ended
            SumSeq([j \in DOMAIN hist |->
                      IF hist[j][2] # st THEN 0
                      ELSE LET lo == Max2(hist[j][1], a)
                               hi == IF j = Len(hist) THEN b ELSE Min2(hist[j + 1][1], b)
                           IN Max2(hi - lo, 0)])
    IN Chk("C17.probabilities-are-time-shares", \A w \in DOMAIN probs :
            LET p == probs[w]
            IN ~p.err /\ \A r \in DOMAIN p.res : p.res[r].un * (p.b - p.a) = Dur(p.a, p.b, p.res[r].s) * p.res[r].ud)
       \cup Chk("C17.probabilities-cover-visited-states", \A w \in DOMAIN probs :
            LET p == probs[w]
            IN \A j \in DOMAIN hist : Dur(p.a, p.b, hist[j][2]) > 0 =>
                  \E r \in DOMAIN p.res : p.res[r].s = hist[j][2])

----------------------------------------------------------------------------
(* C18 deadlock detection.  dg = set of edges <<n1, s1, n2, s2>> of the detector's digraph.     *)

\* genuine deadlock: greatest set D of nodes all of whose servers hold customers blocked towards D
TrueDeadlock(cfg, S) ==
    LET allBlocked(n) == S.nodes[n].c < INF /\ S.nodes[n].srv # <<>>
                         /\ \A a \in DOMAIN S.nodes[n].srv :
                               LET cu == S.nodes[n].srv[a].cust
                               IN cu # 0 /\ IsLive(S, cu) /\ CuOf(S, cu).blk
        D0 == {n \in 1..NN(S) : allBlocked(n)}
        RECURSIVE Shrink(_)
        Shrink(D) ==
            LET D2 == {n \in D : \A a \in DOMAIN S.nodes[n].srv : CuOf(S, S.nodes[n].srv[a].cust).dest \in D}
            IN IF D2 = D THEN D ELSE Shrink(D2)
    IN Shrink(D0) # {}

KnotIn(E) ==
    LET V == {<<e[1], e[2]>> : e \in E} \cup {<<e[3], e[4]>> : e \in E}
        Succ(v) == {<<e[3], e[4]>> : e \in {f \in E : f[1] = v[1] /\ f[2] = v[2]}}
        RECURSIVE ReachFrom(_, _)
        ReachFrom(front, seen) ==
            LET nxt == UNION {Succ(v) : v \in front} \ seen
            IN IF nxt = {} THEN seen ELSE ReachFrom(nxt, seen \cup nxt)
        Desc(v) == ReachFrom({v}, {})
        SCC(v) == {v} \cup {u \in Desc(v) : v \in Desc(u)}
    IN \E v \in V :
          LET c == SCC(v)
          IN IF Cardinality(c) = 1 THEN Succ(v) = {v}
             ELSE \E u \in c : Desc(u) \ {u} \subseteq c

Dom_C18(cfg) == cfg.detector = "digraph" /\ ~HasPriorityPreempt(cfg)
                /\ \A n \in DOMAIN cfg.nodes : cfg.nodes[n].kind = "std" /\ cfg.nodes[n].c < INF

F_C18_inv(cfg, S, dg) ==
    IF ~Dom_C18(cfg) THEN {}
    ELSE Chk("C18.knot-iff-genuine-deadlock", KnotIn(dg) <=> TrueDeadlock(cfg, S))

F_C18_step(cfg, pre, post) ==
    IF ~Dom_C18(cfg) \/ cfg.stop # "deadlock" THEN {}
    ELSE Chk("C18.no-event-after-deadlock", ~TrueDeadlock(cfg, pre))
         \cup Chk("C18.detector-answer", \A a \in IdxOf(post, "ddl") :
                  (post.steps[a].x = 1) <=> TrueDeadlock(cfg, post))
         \cup Chk("C18.checked-after-every-new-blockage",
                  (IdxOf(post, "block") # {}) => IdxOf(post, "ddl") # {})
         \cup Chk("C18.deadlock-only-arises-by-a-blockage",
                  TrueDeadlock(cfg, post) /\ ~TrueDeadlock(cfg, pre) => IdxOf(post, "block") # {})

\* seen = first-visit times <<tracker state, date>> maintained by the observer; ttd = logged times_to_deadlock
F_C18_final(cfg, last, outcome, seen, ttd) ==
    IF ~Dom_C18(cfg) \/ cfg.stop # "deadlock" THEN {}
    ELSE Chk("C18.stops-only-in-deadlock", outcome = "returned" => TrueDeadlock(cfg, last))
         \cup Chk("C18.does-not-run-past-deadlock", outcome \in {"truncated", "exhausted"} => ~TrueDeadlock(cfg, last))
         \cup Chk("C18.times-to-deadlock", outcome = "returned" =>
                 Len(ttd) = Len(seen)
                 /\ \A a \in DOMAIN seen : \E b \in DOMAIN ttd :
                        ttd[b].s = seen[a][1] /\ ttd[b].t = last.now - seen[a][2] /\ ttd[b].t >= 0)

----------------------------------------------------------------------------
(* C20 exact arithmetic mode: with exact = k the run, rescaled to ticks of 10^-dec, must satisfy the *)
(* date arithmetic of C02 / C10 as exact integer equalities, and every record field is a Decimal.    *)

F_C20_step(cfg, pre, post) ==
    IF cfg.exact = 0 THEN {}
    ELSE Chk("C20.dates-are-exact-decimal-sums",
             F_C10_step(cfg, pre, post) = {}
             /\ (\A a \in DOMAIN post.recs : RecOk(post.recs[a], post.now))
             /\ post.ev.date = MinDateOf(pre) /\ post.now = post.ev.date)
         \cup Chk("C20.records-are-decimals", \A a \in DOMAIN post.recs : post.recs[a].dec)
         \* the horizon is a date like any other: in exact mode it is the decimal the caller wrote, so an event
         \* whose exact date equals it coincides with it and is not executed (seeded change C20e: horizon taken
         \* from the float's binary expansion, 1.1 -> 1.100000000000000088...)
         \cup (IF cfg.stop = "time"
               THEN Chk("C20.event-coinciding-with-horizon-not-executed", post.ev.date < cfg.T)
               ELSE {})

----------------------------------------------------------------------------
(* C19 processor sharing: rate min(1, R/k), at most `capacity` sharing, FCFS line, exit when the   *)
(* received work equals the requirement.  `left` is the engine's remaining-work variable; its       *)
(* evolution is checked here against rates computed independently from the observed states.        *)

Dom_C19(cfg) == \A n \in DOMAIN cfg.nodes : cfg.nodes[n].qcap >= INF
PsNodes(cfg) == {n \in DOMAIN cfg.nodes : cfg.nodes[n].kind = "ps"}
\* customers sharing the processor at node n: started and not finished
Sharing(S, n) == {j \in DOMAIN S.cu : S.cu[j].loc = n /\ S.cu[j].ss # NONE}

F_C19_inv(cfg, S) ==
    IF ~Dom_C19(cfg) THEN {}
    ELSE Chk("C19.at-most-capacity-sharing-fcfs", \A n \in PsNodes(cfg) :
            LET q == Qs(S, n)
                k == Min2(Len(q), cfg.nodes[n].c)
            IN \* one priority class: exactly the first min(population, capacity) customers in arrival order share
               cfg.P = 1 => \A a \in DOMAIN q : IsLive(S, q[a]) => ((CuOf(S, q[a]).ss # NONE) <=> (a <= k)))
         \cup Chk("C19.capacity-fully-used", \A n \in PsNodes(cfg) :
            \* min(population, capacity) customers share, whatever their classes
            Cardinality(Sharing(S, n)) = Min2(S.nodes[n].count, cfg.nodes[n].c))
         \cup Chk("C19.projected-end-at-current-rate", \A n \in PsNodes(cfg) :
            \* (end - last update) = remaining work * max(k, R) / R, k = number sharing now
            LET k == Cardinality(Sharing(S, n))
                R == cfg.nodes[n].psR
            IN \A j \in Sharing(S, n) :
                  S.cu[j].left # NONE /\ S.cu[j].left >= 0
                  /\ (S.cu[j].se - S.cu[j].lupd) * R = S.cu[j].left * Max2(k, R))

F_C19_step(cfg, pre, post) ==
    IF ~Dom_C19(cfg) THEN {}
    ELSE
    Chk("C19.requirement-sampled-at-start", \A a \in IdxOf(post, "svc") :
           LET s == post.steps[a]
           IN s.n \in PsNodes(cfg) /\ IsLive(post, s.i) /\ CuOf(post, s.i).loc = s.n /\ CuOf(post, s.i).ss = post.now
              => CuOf(post, s.i).st = s.y /\ CuOf(post, s.i).left = s.y)
    \cup Chk("C19.waiting-customers-start-first-come-first-served", \A a \in IdxOf(post, "start") :
           \* nobody who still waits after the event arrived strictly before a customer started in it
           LET s == post.steps[a]
           IN s.n \in PsNodes(cfg) /\ IsLive(post, s.i) /\ CuOf(post, s.i).loc = s.n =>
                \A j \in DOMAIN post.cu : post.cu[j].loc = s.n /\ post.cu[j].ss = NONE
                                            => post.cu[j].arr >= CuOf(post, s.i).arr)
    \cup Chk("C19.work-progresses-at-shared-rate", \A n \in PsNodes(cfg) :
           \* a customer sharing before and after the event: its remaining work decreased by
           \* (time since its last update) * R / max(k, R), k = number sharing BEFORE the event
           LET k == Cardinality(Sharing(pre, n))
               R == cfg.nodes[n].psR
           IN \A j \in Sharing(pre, n) :
                 LET c == pre.cu[j]
                 IN IsLive(post, c.id) /\ CuOf(post, c.id).loc = n /\ CuOf(post, c.id).ss = c.ss =>
                      (c.left - CuOf(post, c.id).left) * Max2(k, R) = (CuOf(post, c.id).lupd - c.lupd) * R)
    \cup Chk("C19.leaves-exactly-when-work-done", \A a \in IdxOf(post, "release") :
           \* the departing customer's remaining work is consumed exactly at this instant
           LET s == post.steps[a]
           IN s.n \in PsNodes(cfg) /\ s.f = 0 /\ IsLive(pre, s.i) /\ CuOf(pre, s.i).loc = s.n =>
                LET c == CuOf(pre, s.i)
                    k == Cardinality(Sharing(pre, s.n))
                    R == cfg.nodes[s.n].psR
                IN c.ss # NONE /\ c.left * Max2(k, R) = (post.now - c.lupd) * R /\ c.se = post.now)
    \cup Chk("C19.unlimited-ps-empties-with-fifo",
           \* coupled configuration (cfg.couple = <<ps node, fifo node>>): compared when the clock moves on
           cfg.couple # <<>> /\ post.now > pre.now =>
              ((pre.nodes[cfg.couple[1]].count = 0) <=> (pre.nodes[cfg.couple[2]].count = 0)))

----------------------------------------------------------------------------
(* Aggregation *)

StepFails(cfg, pre, post, ob) ==
    F_C01_step(cfg, pre, post) \cup F_C02_step(cfg, pre, post) \cup F_C03_step(cfg, pre, post)
    \cup F_C04_step(cfg, pre, post) \cup F_C12_step(cfg, pre, post)
    \cup F_C05_step(cfg, pre, post) \cup F_C06_step(cfg, pre, post) \cup F_C07_step(cfg, pre, post)
    \cup F_C08_step(cfg, pre, post) \cup F_C09_step(cfg, pre, post, ob.rt) \cup F_C10_step(cfg, pre, post)
    \cup F_C11_step(cfg, pre, post) \cup F_C13_step(cfg, pre, post) \cup F_C14_step(cfg, pre, post)
    \cup F_C17_step(cfg, pre, post) \cup F_C18_step(cfg, pre, post) \cup F_C20_step(cfg, pre, post)
    \cup F_C19_step(cfg, pre, post) \cup F_C10_fault(cfg, post)

\* ob = observer state AFTER the event that produced S
InvFails(cfg, S, ob) ==
    F_C17_inv(cfg, S, ob.gb) \cup F_C19_inv(cfg, S) \cup F_C18_inv(cfg, S, ob.dg) \cup
    F_C01_inv(cfg, S) \cup F_C03_inv(cfg, S) \cup F_C04_inv(cfg, S) \cup F_C12_inv(cfg, S) \cup F_C05_inv(cfg, S) \cup F_C06_inv(cfg, S)
    \cup F_C07_inv(cfg, S) \cup F_C09_inv(cfg, S) \cup F_C10_inv(cfg, S) \cup F_C11_inv(cfg, S)
    \cup F_C13_inv(cfg, S)

\* observer: blockage order after an event (block appends, an unblocking release removes its entry)
RECURSIVE GbFold(_, _, _)
GbFold(steps, a, gb) ==
    IF a > Len(steps) THEN gb
    ELSE LET s == steps[a]
         IN IF s.k = "block" THEN GbFold(steps, a + 1, Append(gb, <<s.n, s.i, s.d>>))
            ELSE IF s.k = "release" /\ s.f = 1 THEN
                 LET hit == {j \in DOMAIN gb : gb[j][1] = s.n /\ gb[j][2] = s.i}
                 IN GbFold(steps, a + 1, IF hit = {} THEN gb ELSE RemoveAt(gb, SetMin(hit)))
            ELSE GbFold(steps, a + 1, gb)

\* cycle-router decision counters after an event
RtAfter(cfg, post, rt) ==
    [k \in 1..cfg.K |-> [n \in 1..cfg.N |->
        rt[k][n] + Cardinality({a \in IdxOf(post, "route") : post.steps[a].x \in 1..cfg.K
                                                               /\ RouterKey(cfg, post.steps[a].x) = k /\ post.steps[a].n = n
                                                               /\ post.steps[a].f # 2})]]

\* observer: attachment intervals.  att = <<node, server, since>> of current attachments
RECURSIVE AttFold(_, _, _, _, _)
AttFold(pre, post, a, att, acc) ==
    \* acc = [busy, tot]: attached time of finished attachments, presence time of removed servers, per node
    IF a > Len(post.steps) THEN [att |-> att, busy |-> acc.busy, tot |-> acc.tot]
    ELSE LET s == post.steps[a]
         IN IF s.k = "attach" THEN AttFold(pre, post, a + 1, Append(att, <<s.n, s.s, post.now>>), acc)
            ELSE IF s.k = "detach" THEN
                 LET hit == {j \in DOMAIN att : att[j][1] = s.n /\ att[j][2] = s.s}
                 IN IF hit = {} \/ s.n \notin DOMAIN acc.busy THEN AttFold(pre, post, a + 1, att, acc)
                    ELSE AttFold(pre, post, a + 1, RemoveAt(att, SetMin(hit)),
                                 [acc EXCEPT !.busy[s.n] = @ + (post.now - att[SetMin(hit)][3])])
            ELSE IF s.k = "kill" /\ s.n \in DOMAIN acc.tot /\ s.n \in 1..NN(pre) THEN
                 LET old == {j \in DOMAIN pre.nodes[s.n].srv : pre.nodes[s.n].srv[j].id = s.s}
                     start == IF old = {} THEN post.now ELSE pre.nodes[s.n].srv[SetMin(old)].start
                 IN AttFold(pre, post, a + 1, att, [acc EXCEPT !.tot[s.n] = @ + (post.now - start)])
            ELSE AttFold(pre, post, a + 1, att, acc)

ObsAfter(cfg, pre, post, ob) ==
    LET st == <<post.trk.a, post.trk.b, post.trk.m>>
        af == AttFold(pre, post, 1, ob.att, [busy |-> ob.busy, tot |-> ob.tot])
    IN [rt |-> RtAfter(cfg, post, ob.rt), gb |-> GbFold(post.steps, 1, ob.gb),
        att |-> af.att, busy |-> af.busy, tot |-> af.tot,
        hist |-> IF ob.hist[Len(ob.hist)][2] = st THEN ob.hist ELSE Append(ob.hist, <<post.now, st>>),
        seen |-> IF \E a \in DOMAIN ob.seen : ob.seen[a][1] = st THEN ob.seen ELSE Append(ob.seen, <<st, post.now>>)]

\* Known findings (DESIGN.md section 7): trigger predicates over one observed step.  A trace is tainted
\* by finding F from the first step whose trigger holds; see known_findings.json for what each means.
Triggers(cfg, pre, post) ==
    (IF \E a \in IdxOf(post, "interrupt") : IsLive(pre, post.steps[a].i) /\ CuOf(pre, post.steps[a].i).blk
     THEN {"F4"} ELSE {})
    \cup (IF \E a \in IdxOf(post, "preempt") : IsLive(pre, post.steps[a].i)
                 /\ CuOf(pre, post.steps[a].i).rdate # NONE /\ CuOf(pre, post.steps[a].i).rdate < INF
          THEN {"F8"} ELSE {})
    \cup (IF \E a \in IdxOf(post, "preempt") : \E b \in DOMAIN post.steps[a].wq :
                 post.steps[a].wq[b][2] = post.steps[a].i /\ post.steps[a].wq[b][5] = 1
          THEN {"F13"} ELSE {})
    \cup (IF \E a \in IdxOf(post, "preempt") : post.steps[a].n \in DOMAIN cfg.nodes /\ cfg.nodes[post.steps[a].n].pp = 4
          THEN {"F12"} ELSE {})
    \cup (IF post.ev.kind = "shift_change" /\ post.ev.node \in DOMAIN cfg.nodes /\ cfg.nodes[post.ev.node].kind = "sched"
              /\ cfg.nodes[post.ev.node].sched.pre = 4 /\ IdxOf(post, "interrupt") # {}
          THEN {"F17"} ELSE {})
    \cup (IF \E a \in IdxOf(post, "route") : post.steps[a].f = 2 /\ post.steps[a].d \in 1..NN(pre)
                 /\ pre.nodes[post.steps[a].d].count >= pre.nodes[post.steps[a].d].cap
          THEN {"F22"} ELSE {})
    \cup (IF \E a \in IdxOf(post, "preempt") : post.steps[a].n \in 1..NN(pre) /\
                 \E b \in DOMAIN pre.nodes[post.steps[a].n].srv :
                     pre.nodes[post.steps[a].n].srv[b].cust = post.steps[a].i /\ pre.nodes[post.steps[a].n].srv[b].off
          THEN {"F23"} ELSE {})



\* non-vacuity witnesses of one event
Witnesses(cfg, pre, post) ==
    {post.steps[a].k : a \in DOMAIN post.steps}
    \cup {"ev:" \o post.ev.kind}
    \cup {"rec:" \o post.recs[a].type : a \in DOMAIN post.recs}
    \cup (IF \E a \in IdxOf(post, "pickind") : Len(post.steps[a].w) > 1 THEN {"tie-ind"} ELSE {})
    \cup (IF \E a \in IdxOf(post, "release") : post.steps[a].f = 1 THEN {"unblock"} ELSE {})
    \cup (IF Cardinality({post.steps[a].i : a \in IdxOf(post, "release")}) > 1 THEN {"cascade"} ELSE {})
    \cup (IF Cardinality(IdxOf(post, "admit")) > 1 THEN {"batch>1"} ELSE {})
    \cup (IF \E a \in IdxOf(post, "svc") : post.steps[a].y = 0 THEN {"zero-service"} ELSE {})
    \cup (IF post.now = pre.now /\ pre.ev.kind # "init" THEN {"same-instant"} ELSE {})
    \cup (IF \E a \in IdxOf(post, "choose") : post.steps[a].i # 0 /\
              Cardinality({p \in DOMAIN post.steps[a].wq : post.steps[a].wq[p] # <<>>}) > 1 THEN {"choose-multi-prio"} ELSE {})
    \cup (IF \E a \in IdxOf(post, "disc") : Len(post.steps[a].w) > 1 THEN {"choose-among-many"} ELSE {})
    \cup (IF \E a \in IdxOf(post, "route") : post.steps[a].f = 0 /\ post.steps[a].d # EXIT THEN {"route-internal"} ELSE {})
    \cup (IF \E a \in IdxOf(post, "cchg") : post.steps[a].x # post.steps[a].y THEN {"class-changed"} ELSE {})
    \cup (IF \E a \in IdxOf(post, "start") : IsLive(pre, post.steps[a].i) /\ CuOf(pre, post.steps[a].i).stm # 0
          THEN {"restart-after-preemption"} ELSE {})
=============================================================================
