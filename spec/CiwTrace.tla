------------------------------ MODULE CiwTrace ------------------------------
(***************************************************************************)
(* Tr validation (code -> spec): replays traces recorded from the real  *)
(* engine.  For every logged event it                                      *)
(*   1. evaluates the property formulas of CiwProps on the IMPLEMENTATION's *)
(*      logged states / micro-steps / records (verdicts),                  *)
(*   2. checks that the step is a step of Ciw.tla under the logged draws   *)
(*      (refinement; differences are reported as DRIFT with the fields),   *)
(*   3. resynchronises the spec state on the logged state so that the rest *)
(*      of the trace is still checked.                                     *)
(* One verdict line per trace is printed; TLC visits exactly one state per *)
(* logged event.  Run with -workers 1.                                     *)
(***************************************************************************)
EXTENDS Ciw, Json, IOUtils

INSTANCE CiwProps

Traces == ndJsonDeserialize(IOEnv.TRACE_FILE)
NT == Len(Traces)

VARIABLES tid,     \* index of the trace being replayed
          l,       \* number of events of that trace consumed
          S,       \* spec state (resynchronised on the log after every event)
          fails,   \* set of <<clause, event index>> of failed property clauses (first occurrence per clause)
          wits,    \* set of witness tags seen
          drift,   \* set of <<event index, kind, detail-set>>
          taint,   \* set of <<finding id, first event index>> whose trigger fired
          obs,     \* observer state maintained from the log only (cycle-router decision counters)
          out      \* verdicts of the finished traces
vars == <<tid, l, S, fails, wits, drift, taint, obs, out>>

Tr == Traces[tid]

\* spec-internal fields added to a logged state
FromLog(st, cfg, ob) ==
    [now |-> st.now, created |-> st.created, accepted |-> st.accepted, completed |-> st.completed,
     nexit |-> st.nexit, arr |-> st.arr, and |-> st.and, ann |-> st.ann, anc |-> st.anc,
     nodes |-> st.nodes, cu |-> st.cu, exit |-> st.exit, steps |-> st.steps, recs |-> st.recs,
     ev |-> st.ev, unchecked |-> st.unchecked, trk |-> st.trk,
     trkprev |-> <<st.trk.a, st.trk.b, st.trk.m>>, gb |-> ob.gb, dg |-> Range(st.dg), dl |-> FALSE, pz |-> 1,
     rt |-> ob.rt, cfg |-> cfg, mode |-> "trace", script |-> <<>>, err |-> ""]

Rt0(cfg) == [k \in 1..cfg.K |-> [n \in 1..cfg.N |-> 0]]
Obs0(cfg) == [rt |-> Rt0(cfg), gb |-> <<>>, seen |-> <<>>, att |-> <<>>, hist |-> <<>>,
              busy |-> [n \in 1..cfg.N |-> 0], tot |-> [n \in 1..cfg.N |-> 0]]
\* observer at the initial state of a trace: the initial tracker state is first seen at date 0
ObsInit(tr) == [Obs0(tr.cfg) EXCEPT !.seen = << <<<<tr.init.trk.a, tr.init.trk.b, tr.init.trk.m>>, 0>> >>,
                                     !.hist = << <<0, <<tr.init.trk.a, tr.init.trk.b, tr.init.trk.m>>>> >>]

\* fields compared between spec successor and log
CmpFields == {"now", "created", "accepted", "completed", "nexit", "arr", "and", "ann", "anc",
              "exit", "recs", "ev", "unchecked", "steps", "trk"}
NodeFields == {"c", "cap", "q", "count", "insvc", "srv", "hid", "bq", "lbq", "intr", "nintr",
               "ned", "net", "nei", "shd", "shc", "shi", "ot", "nccd", "ncci", "psocc"}

DiffOf(T, post) ==
    {f \in CmpFields : T[f] # post[f]}
    \cup (IF T.dg # Range(post.dg) THEN {"dg"} ELSE {})
    \cup (IF Len(T.nodes) # Len(post.nodes) THEN {"nodes.len"}
          ELSE UNION {{"nodes." \o f : f \in {g \in NodeFields : T.nodes[n][g] # post.nodes[n][g]}}
                      : n \in DOMAIN T.nodes})
    \cup (IF Len(T.cu) # Len(post.cu) THEN {"cu.len"}
          ELSE UNION {{"cu." \o f : f \in {g \in DOMAIN T.cu[j] : T.cu[j][g] # post.cu[j][g]}}
                      : j \in DOMAIN T.cu})

TraceInit ==
    /\ tid = 1
    /\ l = 0
    /\ S = FromLog(Traces[1].init, Traces[1].cfg, Obs0(Traces[1].cfg))
    /\ fails = {}
    /\ wits = {}
    /\ drift = {}
    /\ taint = {}
    /\ obs = ObsInit(Traces[1])
    /\ out = <<>>

LoggedState(j) == IF j = 0 THEN Tr.init ELSE Tr.events[j]

AddFails(old, new, j) ==
    old \cup {<<c, j>> : c \in {d \in new : ~\E p \in old : p[1] = d}}

Verdict ==
    [tid |-> Tr.tid, n |-> l, outcome |-> Tr.outcome,
     fails |-> AddFails(fails, F_C14_final(Tr.cfg, LoggedState(l), Tr.outcome)
                               \cup F_C18_final(Tr.cfg, LoggedState(l), Tr.outcome, obs.seen, Tr.final.ttd)
                               \cup F_C04_final(Tr.cfg, LoggedState(l), Tr.outcome, obs, Tr.final.util)
                               \cup F_C17_final(Tr.cfg, Tr.outcome, obs.hist, Tr.final.probs), l),
     wits |-> wits, drift |-> drift, taint |-> taint]

\* initial state of a trace: invariants judged on it, and compared with the spec's Init
InitCheck ==
    LET cfg == Tr.cfg
        st == Tr.init
        succ == InitStates(cfg, "trace", st.steps)
        match == {T \in succ : DiffOf(T, st) = {}}
    IN [f |-> InvFails(cfg, st, [gb |-> <<>>, dg |-> Range(st.dg)]),
        d |-> IF match # {} THEN {}
              ELSE IF succ = {} THEN {<<0, "no-successor", {"init"}>>}
              ELSE {<<0, "diff", DiffOf(CHOOSE T \in succ : TRUE, st)>>}]

\* C14 "every event scheduled before T is executed" needs the engine's cache of next event dates to be TRUE:
\* the date cached for each node must be the earliest date at which something is due there, recomputed by the
\* specification's update_next_event_date from the logged configuration itself (customers' end, reneging and
\* class-change dates, server end dates, timetable).  An event missing from the cache would silently never run.
TrueNed(L, n) ==
    LET L1 == IF Dynamic(L) THEN FindNextClassChange(L, n) ELSE L
    IN UpdateNextEvent(L1, n).nodes[n].ned

CacheFails(L) ==
    Chk("C14.every-due-event-is-scheduled", \A n \in 1..L.cfg.N : TrueNed(L, n) = L.nodes[n].ned)

StepEvent ==
    /\ tid <= NT
    /\ l < Len(Tr.events)
    /\ LET e == Tr.events[l + 1]
           pre == LoggedState(l)
           cfg == Tr.cfg
           a == IF e.ev.kind = "arrival" THEN 0 ELSE e.ev.node
           Sx == [S EXCEPT !.script = e.steps]
           isPause == e.ev.kind = "pause"
           enabled == isPause \/ (a \in ArgMin(Sx) /\ EvLabel(Sx, a).kind = e.ev.kind)
           succ == IF isPause THEN {PauseStep(Sx, e.ev.date)} ELSE IF enabled THEN ExecEvent(Sx, a) ELSE {}
           match == {T \in succ : DiffOf(T, e) = {}}
           obs2 == ObsAfter(cfg, pre, e, obs)
           i0 == IF l = 0 THEN InitCheck ELSE [f |-> {}, d |-> {}]
           newfails == (IF isPause THEN F_C16_pause(cfg, pre, e)
                        ELSE StepFails(cfg, pre, e, obs) \cup CacheFails(FromLog(e, cfg, obs2)))
                       \cup InvFails(cfg, e, [gb |-> obs2.gb, dg |-> Range(e.dg)])
           dr == IF ~enabled THEN {<<l + 1, "not-enabled", {e.ev.kind}>>}
                 ELSE IF succ = {} THEN {<<l + 1, "no-successor", {e.ev.kind}>>}
                 ELSE IF match # {} THEN {}
                 ELSE LET T == CHOOSE T \in succ : TRUE
                      IN IF ~Ok(T) THEN {<<l + 1, "spec-crash", {T.err}>>}
                         ELSE {<<l + 1, "diff", DiffOf(T, e)>>}

       IN /\ fails' = AddFails(AddFails(fails, i0.f, 0), newfails, l + 1)
          /\ wits' = wits \cup (IF isPause THEN {"pause"} ELSE Witnesses(cfg, pre, e))
          /\ taint' = AddFails(taint, Triggers(cfg, pre, e), l + 1)
          /\ drift' = IF Cardinality(drift) < 3 THEN drift \cup i0.d \cup dr ELSE drift
          /\ S' = FromLog(e, cfg, obs2)
          /\ obs' = obs2
    /\ l' = l + 1
    /\ UNCHANGED <<tid, out>>

NextTrace ==
    /\ tid <= NT
    /\ l = Len(Tr.events)
    /\ out' = Append(out, Verdict)
    /\ tid' = tid + 1
    /\ l' = 0
    /\ fails' = {}
    /\ wits' = {}
    /\ drift' = {}
    /\ taint' = {}
    /\ IF tid < NT
       THEN /\ S' = FromLog(Traces[tid + 1].init, Traces[tid + 1].cfg, Obs0(Traces[tid + 1].cfg))
            /\ obs' = ObsInit(Traces[tid + 1])
       ELSE S' = S /\ obs' = obs /\ ndJsonSerialize(IOEnv.OUT_FILE, out')

TraceNext == StepEvent \/ NextTrace

TraceSpec == TraceInit /\ [][TraceNext]_vars
=============================================================================
