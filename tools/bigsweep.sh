#!/bin/bash
# tools/bigsweep.sh <outfile> <n per family> <seed0>: clean-tree sweep of every family, all properties judged; prints only
# unexplained failures and drift (what would be a false alarm or a new finding)
OUT=$1; N=${2:-600}; S0=${3:-5000}
cd /verif
FAMS=$(PYTHONPATH=/repo /venv/bin/python -c "from harness.families import FAMILIES; print(' '.join(sorted(FAMILIES)))")
: > $OUT
for F in $FAMS; do
  echo "== $F" >> $OUT
  PYTHONPATH=/repo /venv/bin/python -m harness.sweep $F $N $S0 80 2>&1 | grep -E "^FAIL|^DRIFT|^traces|^outcomes" | grep -v "known F" | cut -c1-260 >> $OUT
done
echo DONE >> $OUT
