#!/bin/bash
# tools/confirm_seed.sh <seed-dir> <outdir>: confirms independently that a seeded change (patch.diff + demo.py)
# applies to /repo HEAD, keeps the test suite green, and that the demo fails with it and passes without it.
SEED=$1; OUT=$2
NAME=$(basename $(dirname $SEED))_$(basename $SEED)
WT=/tmp/sc/$NAME
mkdir -p /tmp/sc $OUT
git -C /repo worktree remove --force $WT 2>/dev/null; rm -rf $WT
git -C /repo worktree add -q --detach $WT HEAD || exit 2
{
cp -r $SEED $WT/_seed
cd $WT
PYTHONPATH=$WT /venv/bin/python _seed/demo.py >/dev/null 2>&1; echo "demo_clean_rc=$?"
if git apply _seed/patch.diff 2>/dev/null || git apply -3 _seed/patch.diff 2>/dev/null || patch -p1 -s < _seed/patch.diff; then echo "patch_applied=1"; else echo "patch_applied=0"; fi
PYTHONPATH=$WT /venv/bin/python _seed/demo.py >/dev/null 2>&1; echo "demo_patched_rc=$?"
/venv/bin/python -m pytest -q -p no:cacheprovider --timeout=900 -x -q ciw >/dev/null 2>&1; echo "tests_rc=$?"
} > $OUT/$NAME.confirm 2>&1
git -C /repo worktree remove --force $WT 2>/dev/null; rm -rf $WT
echo "$NAME: $(tr '\n' ' ' < $OUT/$NAME.confirm)"
