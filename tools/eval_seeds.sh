#!/bin/bash
# tools/eval_seeds.sh <outdir> [ids...] : runs the quick check of the broken property against every seeded change
# (scratch worktree of /repo HEAD with the patch applied, CIWVERIF_REPO pointing at it).  Run from a /verif checkout.
OUT=${1:-/tmp/seedeval}; shift
HERE=$(pwd)
mkdir -p $OUT /tmp/sv
IDS=${@:-$(ls $HERE/seeded | grep -E '^C[0-9]+[a-z]$')}
for ID in $IDS; do
  P=${ID:0:3}
  WT=/tmp/sv/$ID
  git -C /repo worktree remove --force $WT 2>/dev/null; rm -rf $WT
  git -C /repo worktree add -q --detach $WT HEAD || { echo "$ID worktree failed"; continue; }
  ( cd $WT && git apply $HERE/seeded/$ID/patch.diff ) || { echo "$ID patch failed" | tee $OUT/$ID.result; git -C /repo worktree remove --force $WT; continue; }
  CIWVERIF_REPO=$WT CIWVERIF_NOEVIDENCE=1 CIWVERIF_SKIP_MC=1 $HERE/bin/check $P --tier ${TIER:-quick} > $OUT/$ID.log 2>&1; RC=$?
  echo "$ID rc=$RC viol=$(grep -c '^VIOLATION' $OUT/$ID.log) clauses: $(grep '^VIOLATION' $OUT/$ID.log | sed 's/.*clause=\([^ ]*\).*/\1/' | sort | uniq -c | tr '\n' ';' | tr -s ' ')" | tee $OUT/$ID.result
  git -C /repo worktree remove --force $WT 2>/dev/null; rm -rf $WT
done
