#!/bin/bash
# tools/eval_seeds_sweep.sh <outdir> [ids...]: for every seeded change, one sweep over all families judged for ALL
# properties (which clauses of which properties fire, known findings excluded).  Run from a /verif checkout.
OUT=${1:-/tmp/seedsweep}; shift
HERE=$(pwd)
mkdir -p $OUT /tmp/sp
IDS=${@:-$(ls $HERE/seeded | grep -E '^C[0-9]+[a-z]$')}
FAMS=mix,pause,date0,jsqsched,dead3,jockey,slotpre,renegesched,schedblock,infblock,ppsched,ps,psfifo,core1,tandem,prio,preempt,cls,clsren,renege,route,sched,schedpre,slot,ccw,ccw2,trk,reroute,stopcount,dead,exact,fault
for ID in $IDS; do
  WT=/tmp/sp/$ID
  git -C /repo worktree remove --force $WT 2>/dev/null; rm -rf $WT
  git -C /repo worktree add -q --detach $WT HEAD || continue
  ( cd $WT && git apply $HERE/seeded/$ID/patch.diff ) || { echo "$ID patch failed" > $OUT/$ID.sweep; git -C /repo worktree remove --force $WT; continue; }
  ( cd $HERE && CIWVERIF_REPO=$WT PYTHONPATH=$WT /venv/bin/python -m harness.sweep $FAMS ${N:-1300} 0 60 ) > $OUT/$ID.full 2>&1
  grep -E "^FAIL|^outcomes|^traces|^DRIFT" $OUT/$ID.full | grep -v "known F" | cut -c1-200 > $OUT/$ID.sweep
  echo "$ID: $(grep '^FAIL' $OUT/$ID.sweep | awk '{print $2}' | cut -d. -f1 | sort | uniq -c | tr '\n' ' ')"
  git -C /repo worktree remove --force $WT 2>/dev/null; rm -rf $WT
done
