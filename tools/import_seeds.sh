#!/bin/bash
# tools/import_seeds.sh <prop> : copies /tmp/seedout/<prop>/<prop>{x,y} to seeded/<prop>{c,d} and confirms them
P=$1; L1=${2:-c}; L2=${3:-d}
for pair in x:$L1 y:$L2; do
  s=${pair%%:*}; t=${pair##*:}
  src=${SRC:-/tmp/seedout}/$P/$P$s; dst=/verif/seeded/$P$t
  [ -f $src/patch.diff ] || { echo "missing $src"; continue; }
  mkdir -p $dst; cp $src/patch.diff $src/demo.py $src/meta.json $dst/
  bash /verif/tools/confirm_seed.sh $dst /tmp/seedconfirm
done
