#!/bin/bash
# tools/probe_seed.sh <seed id> <families> <n> [seed0] [max_events]: sweep (all properties) against a seeded change
ID=$1; FAMS=$2; N=$3; S0=${4:-0}; ME=${5:-60}
WT=/tmp/sp/$ID
mkdir -p /tmp/sp; git -C /repo worktree remove --force $WT 2>/dev/null; rm -rf $WT
git -C /repo worktree add -q --detach $WT HEAD && ( cd $WT && git apply /verif/seeded/$ID/patch.diff ) || exit 2
cd /verif && CIWVERIF_REPO=$WT PYTHONPATH=$WT /venv/bin/python -m harness.sweep $FAMS $N $S0 $ME 2>&1 | grep -E "^FAIL|^outcomes|^traces|^DRIFT" | cut -c1-220
git -C /repo worktree remove --force $WT 2>/dev/null; rm -rf $WT
