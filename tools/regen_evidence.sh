#!/bin/bash
# tools/regen_evidence.sh [seed]: runs every quick check in /verif against /repo and rewrites evidence/*.json
cd /verif || exit 2
SEED=${1:-1}
for P in C01 C02 C03 C04 C05 C06 C07 C08 C09 C10 C11 C12 C13 C14 C15 C16 C17 C18 C19 C20; do
  S=$(date +%s)
  VERIF_SEED=$SEED bin/check $P --tier quick > .work/regen_$P.log 2>&1; RC=$?
  echo "$P rc=$RC wall=$(( $(date +%s) - S ))s $(grep -c '^VIOLATION' .work/regen_$P.log) violations $(grep -c '^KNOWN-FINDING' .work/regen_$P.log) known | $(tail -1 .work/regen_$P.log | cut -c1-110)"
done
