"""builds seeded/RESULTS.md from the outputs of tools/eval_seeds_sweep.sh (and tools/eval_seeds.sh if present)"""
import glob, json, os, re, sys, collections
sweep = sys.argv[1] if len(sys.argv) > 1 else "/tmp/seedsweep"
evald = sys.argv[2] if len(sys.argv) > 2 else "/tmp/seedeval"
rows = []
for d in sorted(glob.glob("/verif/seeded/C*")):
    sid = os.path.basename(d)
    meta = json.load(open(d + "/meta.json"))
    summary = (meta.get("summary") or "")[:160].replace("\n", " ").replace("|", "/")
    props = collections.OrderedDict()
    f = os.path.join(sweep, sid + ".sweep")
    if os.path.exists(f):
        for line in open(f):
            m = re.match(r"FAIL (C\d\d)\.(\S+)\s+(\d+)", line)
            if m:
                props.setdefault(m.group(1), []).append("%s(%s)" % (m.group(2), m.group(3)))
    own = sid[:3]
    chk = ""
    g = os.path.join(evald, sid + ".result")
    if os.path.exists(g):
        chk = open(g).read().strip().replace("|", "/")[:120]
    caught_by = ", ".join("%s: %s" % (p, "; ".join(c[:3])) for p, c in props.items()) or "-"
    rows.append((sid, own, "yes" if own in props else ("other" if props else "NO"), summary, caught_by, chk))
with open("/verif/seeded/RESULTS.md", "w") as out:
    out.write("# Seeded changes vs. checks\n\nEach row: a change written independently (sub-agent saw only the property text), confirmed to keep the 330 tests green and to break the property on its demo.  "
              "`sweep` = clauses (and number of traces) that fail in one sweep of ~1300 traces over all families, known findings excluded; "
              "`own check` = result of `bin/check <property> --tier quick` against the changed tree when it was run.\n\n")
    out.write("| id | own property caught | change | failing clauses in the sweep (property: clause(traces)) | own check |\n|---|---|---|---|---|\n")
    for r in rows:
        out.write("| %s | %s | %s | %s | %s |\n" % (r[0], r[2], r[3], r[4], r[5]))
    n = len(rows)
    out.write("\n%d changes; own property's clauses fire for %d, only other properties' clauses for %d, nothing for %d.\n" %
              (n, sum(r[2] == "yes" for r in rows), sum(r[2] == "other" for r in rows), sum(r[2] == "NO" for r in rows)))
print(open("/verif/seeded/RESULTS.md").read()[-300:])
