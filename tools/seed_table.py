"""builds seeded/RESULTS.md from the output directory of tools/eval_seeds.sh (quick check of the broken property
against a scratch worktree of /repo HEAD with the seeded change applied)"""
import glob, json, os, subprocess, sys
evald = sys.argv[1] if len(sys.argv) > 1 else "/tmp/seedeval"
extra = sys.argv[2:]          # later, partial evaluations that override (re-runs after the machinery was strengthened)
rows = []
for d in sorted(glob.glob("/verif/seeded/C*")):
    sid = os.path.basename(d)
    meta = json.load(open(d + "/meta.json"))
    summary = (meta.get("summary") or "")[:200].replace("\n", " ").replace("|", "/")
    chk = ""
    for ed in [evald] + extra:
        g = os.path.join(ed, sid + ".result")
        if os.path.exists(g):
            chk = open(g).read().strip().replace("|", "/")
    rc = "?"
    if " rc=" in chk:
        rc = chk.split(" rc=")[1].split()[0]
    clauses = chk.split("clauses:")[1].strip()[:200] if "clauses:" in chk else chk[:80]
    rows.append((sid, {"1": "VIOLATION reported", "0": "MISSED", "2": "machinery error"}.get(rc, "not run"), clauses, summary))
head = subprocess.run(["git", "-C", "/repo", "log", "--oneline", "-1"], capture_output=True, text=True).stdout.strip()
with open("/verif/seeded/RESULTS.md", "w") as out:
    out.write("# Seeded changes vs. the quick check of the property they break\n\n"
              "Each row is a change written by an independent sub-agent that saw only the property's text and a scratch worktree; "
              "I confirmed each one (applies to HEAD, the 330 tests stay green, its demo fails with it and passes without it). "
              "`result` is the outcome of `bin/check <property> --tier quick` (VERIF_SEED=0, model checking of the spec skipped) "
              "against a scratch worktree of /repo HEAD (%s) with the change applied: exit 1 with VIOLATION lines = caught.\n\n" % head)
    out.write("| id | result | clauses that fired (count of the 11 reported violations) | change |\n|---|---|---|---|\n")
    for r in rows:
        out.write("| %s | %s | %s | %s |\n" % r)
    n = len(rows)
    out.write("\n%d changes: %d reported, %d missed, %d not run / error.\n" %
              (n, sum(r[1] == "VIOLATION reported" for r in rows), sum(r[1] == "MISSED" for r in rows),
               sum(r[1] not in ("VIOLATION reported", "MISSED") for r in rows)))
print(open("/verif/seeded/RESULTS.md").read()[-200:])
