#!/bin/bash
# tools/soundness.sh <outdir> <seeds...>: every quick check on the UNCHANGED tree for several VERIF_SEEDs; any exit != 0 is a problem
OUT=$1; shift
mkdir -p $OUT
for SEED in "$@"; do
  for P in C01 C02 C03 C04 C05 C06 C07 C08 C09 C10 C11 C12 C13 C14 C15 C16 C17 C18 C19 C20; do
    S=$(date +%s)
    VERIF_SEED=$SEED CIWVERIF_NOEVIDENCE=1 bin/check $P --tier ${TIER:-quick} > $OUT/$P.$SEED.log 2>&1; RC=$?
    echo "$P seed=$SEED rc=$RC wall=$(( $(date +%s) - S ))s $(grep -c '^VIOLATION' $OUT/$P.$SEED.log) violations; $(grep -c '^KNOWN-FINDING' $OUT/$P.$SEED.log) known; $(tail -1 $OUT/$P.$SEED.log | cut -c1-120)" | tee -a $OUT/summary.txt
  done
done
