#!/bin/bash
# runs tools/verify_seed.sh for every seed delivered by the seeding agents under /tmp/wt (or /verif/seeded)
OUT=${1:-/tmp/seedres}
ROOT=${2:-/tmp/wt}
mkdir -p $OUT
for P in C01 C02 C03 C04 C05 C06 C07 C08 C09 C10 C11 C12 C13 C14 C15 C16 C17 C18 C19 C20; do
  for S in _seed _seed2; do
    D=$ROOT/$P/$S
    [ -f $D/patch.diff ] || continue
    grep -q "\"$P\"" /verif/MANIFEST.json || { echo "skip $P (not claimed yet)"; continue; }
    [ -f $OUT/${P}_$S.result ] && continue
    /verif/tools/verify_seed.sh $D $P $OUT
  done
done
