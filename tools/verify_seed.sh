#!/bin/bash
# tools/verify_seed.sh <seed-dir containing patch.diff demo.py meta.json> <property> <outdir> [check props...]
# 1. scratch worktree of /repo HEAD; 2. patch applies, test suite passes, demo fails with / passes without;
# 3. runs bin/check for the given properties against the patched scratch tree (CIWVERIF_REPO).
SEED=$1; PROP=$2; OUT=$3; shift 3; CHECKS=${@:-$PROP}
NAME=$(basename $(dirname $SEED))_$(basename $SEED)
WT=/tmp/sv/$NAME
mkdir -p /tmp/sv $OUT
git -C /repo worktree remove --force $WT 2>/dev/null; rm -rf $WT
git -C /repo worktree add -q --detach $WT HEAD || exit 2
R=$OUT/$NAME.result
{
echo "seed=$SEED prop=$PROP"
cp -r $SEED $WT/_seed
cd $WT
( /venv/bin/python _seed/demo.py >/dev/null 2>&1; echo "demo_clean_rc=$?" )
if git apply _seed/patch.diff 2>/dev/null || git apply -3 _seed/patch.diff 2>/dev/null || patch -p1 -s < _seed/patch.diff; then echo "patch_applied=1"; else echo "patch_applied=0"; fi
( /venv/bin/python _seed/demo.py >/dev/null 2>&1; echo "demo_patched_rc=$?" )
( /venv/bin/python -m pytest -q -p no:cacheprovider --timeout=900 -x -q ciw >/dev/null 2>&1; echo "tests_rc=$?" )
cd /verif
for C in $CHECKS; do
  CIWVERIF_REPO=$WT CIWVERIF_NOEVIDENCE=1 bin/check $C --tier quick > $OUT/$NAME.$C.log 2>&1; echo "check_$C rc=$? $(grep -c VIOLATION $OUT/$NAME.$C.log) violations: $(grep VIOLATION $OUT/$NAME.$C.log | sed 's/.*clause=\([^ ]*\).*/\1/' | sort | uniq -c | tr '\n' ';')"
done
} > $R 2>&1
git -C /repo worktree remove --force $WT 2>/dev/null; rm -rf $WT
cat $R
